// Probe: sibling inconsistencies and read-like helpers outside the root package.
package main

import (
	goflag "flag"
	"fmt"

	ucfg "github.com/elastic/go-ucfg"
	"github.com/elastic/go-ucfg/flag"
)

func main() {
	opts := []ucfg.Option{ucfg.PathSep("."), ucfg.VarExp}
	c := ucfg.MustNewFrom(map[string]interface{}{"a": map[string]interface{}{"z": []interface{}{1, 2, 3}}, "r": "${a.z}", "n": nil}, opts...)
	h, err := c.Has("a.z", -1, opts...)
	fmt.Println("Has a.z:", h, err)
	n, err := c.CountField("a.z", opts...)
	fmt.Println("CountField a.z:", n, err)
	n, err = c.CountField("r", opts...)
	fmt.Println("CountField r:", n, err)
	n, err = c.CountField("n", opts...)
	fmt.Println("CountField n:", n, err)
	h, err = c.Has("n", -1, opts...)
	fmt.Println("Has n:", h, err)
	h, err = c.Has("n", 0, opts...)
	fmt.Println("Has n[0]:", h, err)
	s, err := c.String("n", 0, opts...)
	fmt.Println("String n[0]:", s, err)

	// flag: String() of a flag value whose config can not be unpacked records the error
	fs := goflag.NewFlagSet("x", goflag.ContinueOnError)
	def := ucfg.MustNewFrom(map[string]interface{}{"home": "${HOME_DIR}"}, opts...)
	cfg := flag.ConfigVar(fs, def, "E", "settings", opts...)
	err = fs.Parse([]string{"-E", "a=1", "-E", "b=2"})
	fmt.Println("parse err:", err, "keys:", cfg.FlattenedKeys(opts...))
	fv := fs.Lookup("E").Value.(*flag.FlagValue)
	fmt.Println("flag error:", fv.Error())
}
