// Probe: can a read on one config modify a config through a captured alias?
package main

import (
	"fmt"

	ucfg "github.com/elastic/go-ucfg"
	"hunt/fp"
)

type T struct {
	Sub *ucfg.Config `config:"sub"`
}

func dump(c *ucfg.Config) string {
	var m map[string]interface{}
	if err := c.Unpack(&m, ucfg.PathSep("."), ucfg.VarExp); err != nil {
		return "ERR " + err.Error()
	}
	return fmt.Sprint(m)
}

func main() {
	opts := []ucfg.Option{ucfg.PathSep("."), ucfg.VarExp}

	// 1. Unpack c1 then c2 into the same struct: c1 must not change.
	c1 := ucfg.MustNewFrom(map[string]interface{}{"sub": map[string]interface{}{"a": 1}}, opts...)
	c2 := ucfg.MustNewFrom(map[string]interface{}{"sub": map[string]interface{}{"b": 2}}, opts...)
	var t T
	fmt.Println("err1:", c1.Unpack(&t, opts...))
	b1 := fp.Of(c1, false)
	b2 := fp.Of(c2, false)
	fmt.Println("err2:", c2.Unpack(&t, opts...))
	fmt.Println("1. c1 changed by c2.Unpack:", b1 != fp.Of(c1, false), "c1 now:", dump(c1), "| c2 changed:", b2 != fp.Of(c2, false))

	// 2. Merge with Env: a reference in dst that resolves into env, merged with an object from src.
	env := ucfg.MustNewFrom(map[string]interface{}{"x": map[string]interface{}{"a": 1}}, opts...)
	dst := ucfg.MustNewFrom(map[string]interface{}{"v": "${x}"}, opts...)
	src := ucfg.MustNewFrom(map[string]interface{}{"v": map[string]interface{}{"b": 2}}, opts...)
	be := fp.Of(env, false)
	bs := fp.Of(src, false)
	fmt.Println("merge err:", dst.Merge(src, append(opts, ucfg.Env(env))...))
	fmt.Println("2. env changed by dst.Merge(src, Env(env)):", be != fp.Of(env, false), "env now:", dump(env), "| src changed:", bs != fp.Of(src, false))

	// 3. Source holds a reference to an object, destination an object: the source's referenced object must not change
	src3 := ucfg.MustNewFrom(map[string]interface{}{"o": map[string]interface{}{"a": 1}, "v": "${o}"}, opts...)
	dst3 := ucfg.MustNewFrom(map[string]interface{}{"v": map[string]interface{}{"b": 2}}, opts...)
	bs = fp.Of(src3, false)
	fmt.Println("merge err:", dst3.Merge(src3, opts...))
	dst3.SetString("v.a", -1, "changed", opts...)
	fmt.Println("3. src changed:", bs != fp.Of(src3, false), dump(src3), dump(dst3))

	// 4. Unpack with Env: captured config from env, then Unpack again from another config
	c4 := ucfg.MustNewFrom(map[string]interface{}{"sub": "${x}"}, opts...)
	var t4 T
	fmt.Println("err:", c4.Unpack(&t4, append(opts, ucfg.Env(env))...))
	be = fp.Of(env, false)
	b4 := fp.Of(c4, false)
	fmt.Println("err:", c4.Unpack(&t4, append(opts, ucfg.Env(env))...))
	fmt.Println("4. env changed by second Unpack:", be != fp.Of(env, false), "c4 changed:", b4 != fp.Of(c4, false))

	// 5. map[string]*Config target pre-filled from the same config under another key
	c5 := ucfg.MustNewFrom(map[string]interface{}{"p": map[string]interface{}{"a": 1}, "q": map[string]interface{}{"b": 2}}, opts...)
	m5 := map[string]*ucfg.Config{}
	fmt.Println("err:", c5.Unpack(&m5, opts...))
	b5 := fp.Of(c5, false)
	fmt.Println("err:", c5.Unpack(&m5, opts...))
	fmt.Println("5. c5 changed by second Unpack into same map:", b5 != fp.Of(c5, false))

	// 6. []*Config target, second unpack of a shorter/longer list from same config after Remove? skip; use a different list config
	c6 := ucfg.MustNewFrom(map[string]interface{}{"l": []interface{}{map[string]interface{}{"a": 1}}}, opts...)
	c6b := ucfg.MustNewFrom(map[string]interface{}{"l": []interface{}{map[string]interface{}{"b": 1}}}, opts...)
	type L struct {
		L []*ucfg.Config `config:"l"`
	}
	var l L
	fmt.Println("err:", c6.Unpack(&l, opts...))
	b6 := fp.Of(c6, false)
	fmt.Println("err:", c6b.Unpack(&l, opts...))
	fmt.Println("6. c6 changed by c6b.Unpack into the same struct:", b6 != fp.Of(c6, false), dump(c6))

	// 7. Child() then Merge into the child is a write; but Child of a reference target?
	c7 := ucfg.MustNewFrom(map[string]interface{}{"o": map[string]interface{}{"a": 1}, "r": "${o}"}, opts...)
	ch, _ := c7.Child("r", -1, opts...)
	fmt.Println("7. child of reference: path", ch.Path("."), "parent==c7:", ch.Parent() == c7)
}
