// Probe: many goroutines perform mixed reads on one Config; run with -race.
// Every goroutine compares its results with the results obtained alone.
package main

import (
	"fmt"
	"os"
	"reflect"
	"sync"

	ucfg "github.com/elastic/go-ucfg"
	"github.com/elastic/go-ucfg/parse"
	"hunt/fp"
)

type target struct {
	A    map[string]interface{} `config:"a"`
	Ref  *ucfg.Config           `config:"ref"`
	L    []interface{}          `config:"list"`
	Obj  map[string]interface{} `config:"obj"`
	Arr  []int                  `config:"arr"`
	Spl  string                 `config:"spl"`
	Null *ucfg.Config           `config:"null"`
	LC   []*ucfg.Config         `config:"lc"`
	D    string                 `config:"dflt"`
}

func build() *ucfg.Config {
	return ucfg.MustNewFrom(map[string]interface{}{
		"a":      map[string]interface{}{"x": 1, "y": "s", "z": []interface{}{1, 2, map[string]interface{}{"q": true}}},
		"ref":    "${a}",
		"refref": "${ref}",
		"list":   []interface{}{1, "${a.x}", "${list.0}", nil, []interface{}{}},
		"obj":    "${OBJ}",
		"arr":    "${ARR}",
		"spl":    "pre-${a.y}-${a.x}-post",
		"null":   nil,
		"lc":     []interface{}{map[string]interface{}{"k": 1}, map[string]interface{}{"k": "${a.x}"}},
		"dflt":   "${nope:${a.y}}",
		"empty":  map[string]interface{}{},
	}, ucfg.PathSep("."), ucfg.VarExp)
}

func resolver(name string) (string, parse.Config, error) {
	switch name {
	case "OBJ":
		return "{k: 1, l: [1,2]}", parse.DefaultConfig, nil
	case "ARR":
		return "1,2,3", parse.DefaultConfig, nil
	}
	return "", parse.DefaultConfig, ucfg.ErrMissing
}

var opts = []ucfg.Option{ucfg.PathSep("."), ucfg.VarExp, ucfg.Resolve(resolver)}

func round(c *ucfg.Config) []interface{} {
	var out []interface{}
	var t target
	err := c.Unpack(&t, opts...)
	out = append(out, fmt.Sprint(err), t.A, t.L, t.Obj, t.Arr, t.Spl, t.D, len(t.LC))
	var m map[string]interface{}
	err = c.Unpack(&m, opts...)
	out = append(out, fmt.Sprint(err), m)
	for _, n := range []string{"a.x", "ref.x", "refref.y", "list.2", "obj.l.1", "arr.2", "spl", "null", "lc.1.k", "dflt", "nope"} {
		s, err := c.String(n, -1, opts...)
		i, err2 := c.Int(n, -1, opts...)
		h, err3 := c.Has(n, -1, opts...)
		cnt, err4 := c.CountField(n, opts...)
		out = append(out, s, fmt.Sprint(err), i, fmt.Sprint(err2), h, fmt.Sprint(err3), cnt, fmt.Sprint(err4))
	}
	sub, err := c.Child("refref", -1, opts...)
	out = append(out, fmt.Sprint(err), sub.Path("."), sub.FlattenedKeys(opts...))
	out = append(out, c.FlattenedKeys(opts...), len(c.GetFields()), c.Path("."))
	dst := ucfg.New()
	err = dst.Merge(c, opts...)
	var dm map[string]interface{}
	err2 := dst.Unpack(&dm, opts...)
	out = append(out, fmt.Sprint(err), fmt.Sprint(err2), dm)
	dst2 := ucfg.MustNewFrom(map[string]interface{}{"a": map[string]interface{}{"z": []interface{}{7}}}, opts...)
	err = dst2.Merge(c, append(opts, ucfg.AppendValues)...)
	dm = nil
	err2 = dst2.Unpack(&dm, opts...)
	out = append(out, fmt.Sprint(err), fmt.Sprint(err2), dm)
	return out
}

func main() {
	c := build()
	before := fp.Of(c, true)
	alone := round(c)
	var wg sync.WaitGroup
	var mu sync.Mutex
	bad := 0
	for g := 0; g < 16; g++ {
		wg.Add(1)
		go func() {
			defer wg.Done()
			for i := 0; i < 50; i++ {
				got := round(c)
				if !reflect.DeepEqual(got, alone) {
					mu.Lock()
					bad++
					mu.Unlock()
				}
			}
		}()
	}
	wg.Wait()
	after := fp.Of(c, true)
	if bad > 0 || before != after {
		fmt.Println("VIOLATION: differing results:", bad, "fingerprint changed:", before != after)
		os.Exit(1)
	}
	fmt.Println("ok: same results, same fingerprint")
}
