// Probe: the usual "defaults, then overrides" pattern with a *Config field.
// Every goroutine unpacks the SHARED defaults and then its PRIVATE overrides
// into its own struct. Only reads are performed on the shared config.
package main

import (
	"fmt"
	"os"
	"sync"

	ucfg "github.com/elastic/go-ucfg"
)

type T struct {
	Out *ucfg.Config `config:"output"`
}

func dump(c *ucfg.Config) string {
	var m map[string]interface{}
	if err := c.Unpack(&m); err != nil {
		return "ERR " + err.Error()
	}
	return fmt.Sprint(m)
}

func main() {
	shared := ucfg.MustNewFrom(map[string]interface{}{"output": map[string]interface{}{"host": "localhost"}})
	before := dump(shared)
	var wg sync.WaitGroup
	for g := 0; g < 4; g++ {
		wg.Add(1)
		go func(g int) {
			defer wg.Done()
			private := ucfg.MustNewFrom(map[string]interface{}{"output": map[string]interface{}{fmt.Sprintf("opt%d", g): g}})
			var t T
			if err := shared.Unpack(&t); err != nil { // read of shared
				panic(err)
			}
			if err := private.Unpack(&t); err != nil { // read of private
				panic(err)
			}
		}(g)
	}
	wg.Wait()
	after := dump(shared)
	fmt.Println("before:", before)
	fmt.Println("after: ", after)
	if before != after {
		fmt.Println("VIOLATION: the shared config was modified although only Unpack was called on it")
		os.Exit(1)
	}
}
