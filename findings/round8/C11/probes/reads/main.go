// Probe: fingerprint before/after every read operation on a configuration
// with references, splices, resolver objects, nulls, nested lists.
package main

import (
	"fmt"
	"os"

	ucfg "github.com/elastic/go-ucfg"
	"github.com/elastic/go-ucfg/diff"
	"github.com/elastic/go-ucfg/parse"
	"hunt/fp"
)

type target struct {
	A    map[string]interface{} `config:"a"`
	Ref  *ucfg.Config           `config:"ref"`
	Sub  *ucfg.Config           `config:"a"`
	L    []interface{}          `config:"list"`
	Obj  map[string]interface{} `config:"obj"`
	Spl  string                 `config:"spl"`
	Null *ucfg.Config           `config:"null"`
	N2   map[string]interface{} `config:"null"`
	LC   []*ucfg.Config         `config:"lc"`
	RL   []int                  `config:"reflist"`
}

func build() *ucfg.Config {
	return ucfg.MustNewFrom(map[string]interface{}{
		"a":       map[string]interface{}{"x": 1, "y": "s", "z": []interface{}{1, 2, map[string]interface{}{"q": true}}},
		"ref":     "${a}",
		"refref":  "${ref}",
		"list":    []interface{}{1, "${a.x}", "${list.0}", nil, []interface{}{}},
		"obj":     "${OBJ}",
		"arr":     "${ARR}",
		"spl":     "pre-${a.y}-${a.x}-post",
		"null":    nil,
		"lc":      []interface{}{map[string]interface{}{"k": 1}, map[string]interface{}{"k": "${a.x}"}},
		"reflist": "${a.z.0}",
		"dflt":    "${nope:${a.y}}",
		"empty":   map[string]interface{}{},
	}, ucfg.PathSep("."), ucfg.VarExp)
}

func resolver(name string) (string, parse.Config, error) {
	switch name {
	case "OBJ":
		return "{k: 1, l: [1,2]}", parse.DefaultConfig, nil
	case "ARR":
		return "1,2,3", parse.DefaultConfig, nil
	}
	return "", parse.DefaultConfig, ucfg.ErrMissing
}

func main() {
	c := build()
	opts := []ucfg.Option{ucfg.PathSep("."), ucfg.VarExp, ucfg.Resolve(resolver)}
	bad := 0
	check := func(name string, f func()) {
		before := fp.Of(c, true)
		f()
		after := fp.Of(c, true)
		if before != after {
			bad++
			fmt.Printf("CHANGED by %s\n", name)
			os.WriteFile("/tmp/mut8/C11-out/hunt/reads/"+name+".before", []byte(before), 0644)
			os.WriteFile("/tmp/mut8/C11-out/hunt/reads/"+name+".after", []byte(after), 0644)
		}
	}
	check("unpack-struct", func() {
		var t target
		if err := c.Unpack(&t, opts...); err != nil {
			fmt.Println("unpack-struct err:", err)
		}
	})
	check("unpack-struct-twice", func() {
		var t target
		c.Unpack(&t, opts...)
		if err := c.Unpack(&t, opts...); err != nil {
			fmt.Println("unpack-struct-twice err:", err)
		}
	})
	check("unpack-map", func() {
		var m map[string]interface{}
		if err := c.Unpack(&m, opts...); err != nil {
			fmt.Println("unpack-map err:", err)
		}
	})
	check("unpack-map-of-config", func() {
		var m map[string]*ucfg.Config
		sub, _ := c.Child("a", -1)
		_ = sub
		m = map[string]*ucfg.Config{}
		cc := ucfg.MustNewFrom(map[string]interface{}{"a": map[string]interface{}{"x": 1}, "ref": "${a}"}, ucfg.VarExp)
		_ = cc
		if err := c.Unpack(&struct {
			A *ucfg.Config `config:"a"`
			R *ucfg.Config `config:"ref"`
		}{}, opts...); err != nil {
			fmt.Println("err:", err)
		}
		_ = m
	})
	check("getters", func() {
		for _, n := range []string{"a", "a.x", "a.y", "ref", "ref.x", "refref.x", "list", "list.1", "list.2", "list.3", "obj", "obj.k", "obj.l.1", "arr", "arr.2", "spl", "null", "lc.1.k", "reflist", "dflt", "empty", "nope", "a.nope", "a.x.y"} {
			c.Bool(n, -1, opts...)
			c.Int(n, -1, opts...)
			c.Uint(n, -1, opts...)
			c.Float(n, -1, opts...)
			c.String(n, -1, opts...)
			c.Child(n, -1, opts...)
			c.Has(n, -1, opts...)
			c.Has(n, 0, opts...)
			c.Has(n, 3, opts...)
			c.CountField(n, opts...)
			c.String(n, 0, opts...)
			c.Child(n, 1, opts...)
			c.Remove("zzz."+n, -1, opts...)
		}
	})
	check("fields-paths", func() {
		c.GetFields()
		c.HasField("a")
		c.IsDict()
		c.IsArray()
		c.Path(".")
		c.PathOf("x", ".")
		c.Parent()
		c.FlattenedKeys(opts...)
		c.FlattenedKeys()
		sub, _ := c.Child("ref", -1, opts...)
		sub.Path(".")
		sub.Parent()
		sub.FlattenedKeys(opts...)
		diff.CompareConfigs(c, sub, opts...)
	})
	check("merge-source", func() {
		dst := ucfg.New()
		if err := dst.Merge(c, opts...); err != nil {
			fmt.Println("merge err:", err)
		}
		dst2 := ucfg.MustNewFrom(map[string]interface{}{"a": map[string]interface{}{"x": 5, "z": []interface{}{9}}, "ref": map[string]interface{}{"w": 1}, "list": []interface{}{0}}, opts...)
		for _, o := range []ucfg.Option{ucfg.ReplaceValues, ucfg.AppendValues, ucfg.PrependValues, ucfg.ReplaceArrValues, ucfg.FieldAppendValues("a.z"), ucfg.FieldReplaceValues("a")} {
			if err := dst2.Merge(c, append(opts, o)...); err != nil {
				fmt.Println("merge2 err:", err)
			}
		}
		dst2.SetString("a.x", -1, "changed", opts...)
		dst2.SetString("lc.0.k", -1, "changed", opts...)
		dst2.Remove("a.z", 0, opts...)
	})
	check("merge-source-wrapped", func() {
		dst := ucfg.New()
		if err := dst.Merge(map[string]interface{}{"w": c, "v": *c, "u": []*ucfg.Config{c}}, opts...); err != nil {
			fmt.Println("merge err:", err)
		}
		dst.SetString("w.a.x", -1, "changed", opts...)
		dst.SetString("v.a.x", -1, "changed", opts...)
		dst.SetString("u.0.a.x", -1, "changed", opts...)
		type S struct {
			C *ucfg.Config `config:",inline"`
		}
		d2 := ucfg.New()
		if err := d2.Merge(S{c}, opts...); err != nil {
			fmt.Println("merge inline err:", err)
		}
		fmt.Println("inline keys:", d2.FlattenedKeys(opts...))
		d2.SetString("a.x", -1, "changed", opts...)
	})
	check("unpack-into-config", func() {
		into2 := ucfg.New()
		if err := c.Unpack(into2, opts...); err != nil {
			fmt.Println("unpack-into-config err:", err)
		}
		into2.SetString("a.x", -1, "changed", opts...)
	})
	if bad == 0 {
		fmt.Println("no change observed")
	}
}
