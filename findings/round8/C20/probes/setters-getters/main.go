package main

import (
	"fmt"

	ucfg "github.com/elastic/go-ucfg"
)

func try(label string, f func()) {
	defer func() {
		if r := recover(); r != nil {
			fmt.Printf("%-30s PANIC %v\n", label, r)
		}
	}()
	f()
}

func desc(c *ucfg.Config) string {
	n, _ := c.CountField("")
	var a []interface{}
	var m map[string]interface{}
	if c.IsArray() && !c.IsDict() {
		err := c.Unpack(&a)
		return fmt.Sprintf("arr n=%d len=%d err=%v", n, len(a), err)
	}
	err := c.Unpack(&m)
	return fmt.Sprintf("arr=%v dict=%v n=%d m=%v err=%v", c.IsArray(), c.IsDict(), n, m, err)
}

func main() {
	// setters with names
	for _, en := range []bool{false, true} {
		for _, name := range []string{"5", "-5", "+5", "2000", "0x10", "a.5", "a.-5", "a.2000", "-1.x", "5.x", "a.-1"} {
			for _, idx := range []int{-1, 0, 3, 2000, -2} {
				label := fmt.Sprintf("Set en=%v %q idx=%d", en, name, idx)
				try(label, func() {
					c := ucfg.New()
					opts := []ucfg.Option{ucfg.PathSep("."), ucfg.EnableNumKeys(en)}
					err := c.SetString(name, idx, "v", opts...)
					has, herr := c.Has(name, idx, opts...)
					s, gerr := c.String(name, idx, opts...)
					fmt.Printf("%-30s seterr=%v has=%v/%v get=%q/%v | %s\n", label, err, has, herr, s, gerr, desc(c))
				})
			}
		}
	}
}
