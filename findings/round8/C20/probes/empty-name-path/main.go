package main

import (
	"fmt"

	ucfg "github.com/elastic/go-ucfg"
)

// Side remark (not C20): the empty field name doubles as the "I am the root"
// marker in context.path, so a setting below a key with an empty name loses
// its ancestors in Path / FlattenedKeys / error messages.
func main() {
	opts := []ucfg.Option{ucfg.PathSep(".")}
	c, err := ucfg.NewFrom(map[string]interface{}{"a..b": 1, "b": 2}, opts...)
	if err != nil {
		panic(err)
	}
	fmt.Printf("FlattenedKeys = %q (want [\"a..b\" \"b\"])\n", c.FlattenedKeys(opts...))
	sub, err := c.Child("a.", -1, opts...)
	if err != nil {
		panic(err)
	}
	fmt.Printf("Path of child at a.\"\" = %q (want \"a.\")\n", sub.Path("."))
	_, err = c.Bool("a..b", -1, opts...)
	fmt.Printf("error for a..b read as bool: %v\n", err)
}
