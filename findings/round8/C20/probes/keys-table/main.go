package main

import (
	"fmt"
	"sort"

	ucfg "github.com/elastic/go-ucfg"
)

func show(label string, c *ucfg.Config, err error, opts ...ucfg.Option) {
	if err != nil {
		fmt.Printf("%-40s ERR %v\n", label, err)
		return
	}
	var m interface{}
	n, _ := c.CountField("")
	f := c.GetFields()
	sort.Strings(f)
	var out map[string]interface{}
	uerr := c.Unpack(&out, opts...)
	m = out
	fmt.Printf("%-40s arr=%v dict=%v n=%d fields=%q unpack=%v err=%v flat=%q\n", label, c.IsArray(), c.IsDict(), n, f, m, uerr, c.FlattenedKeys(opts...))
}

func main() {
	defer func() {
		if r := recover(); r != nil {
			fmt.Println("PANIC", r)
			panic(r)
		}
	}()
	keys := []string{"0", "5", "+5", "-5", "-0", "+0", "0x5", "0X5", "0o5", "0b101", "05", "005", "1_0", "_5", "5_", "1__0", "0_5", "0x_5", "1024", "1025", "0x400", "0x401", "9223372036854775807", "9223372036854775808", "-9223372036854775808", "5.0", "5e0", " 5", "5 ", "", "٥", "0x", "+", "-", "+-5", "00", "0b", "0_", "1e3"}
	for _, en := range []bool{false, true} {
		for _, mx := range []int64{1024, 0, 3, -1} {
			for _, k := range keys {
				opts := []ucfg.Option{ucfg.MaxIdx(mx), ucfg.EnableNumKeys(en)}
				c, err := ucfg.NewFrom(map[string]interface{}{k: "v"}, opts...)
				show(fmt.Sprintf("en=%v mx=%d key=%q", en, mx, k), c, err, opts...)
			}
		}
	}
	// dotted
	for _, en := range []bool{false, true} {
		for _, k := range keys {
			opts := []ucfg.Option{ucfg.PathSep("."), ucfg.EnableNumKeys(en)}
			c, err := ucfg.NewFrom(map[string]interface{}{"a." + k + ".b": "v"}, opts...)
			show(fmt.Sprintf("dotted en=%v key=%q", en, "a."+k+".b"), c, err, opts...)
			c, err = ucfg.NewFrom(map[string]interface{}{k: "v"}, opts...)
			show(fmt.Sprintf("single/sep en=%v key=%q", en, k), c, err, opts...)
		}
	}
}
