package main

import (
	"fmt"

	ucfg "github.com/elastic/go-ucfg"
)

func run(key string, opts ...ucfg.Option) {
	base := append([]ucfg.Option{ucfg.PathSep(".")}, opts...)
	c, err := ucfg.NewFrom(map[string]interface{}{key: map[string]interface{}{"x": 1}}, base...)
	if err != nil {
		fmt.Println("newfrom", err)
		return
	}
	mopts := append(append([]ucfg.Option{}, base...), ucfg.FieldReplaceValues(key))
	err = c.Merge(map[string]interface{}{key: map[string]interface{}{"y": 2}}, mopts...)
	if err != nil {
		fmt.Println("merge", err)
		return
	}
	sub, err := c.Child(key, -1, base...)
	if err != nil {
		fmt.Println("child", err)
		return
	}
	var m map[string]interface{}
	err = sub.Unpack(&m)
	fmt.Printf("key=%q -> %v %v\n", key, m, err)
}

func main() {
	run("a.5")
	run("a.2000")
	run("a.5", ucfg.MaxIdx(5000))
	run("a.2000", ucfg.MaxIdx(5000))
	run("a.5", ucfg.MaxIdx(3))
	run("a.b")
	run("5", ucfg.EnableNumKeys(true))
	run("5")
	run("2000")
	run("2000", ucfg.MaxIdx(5000))
}
