package main

import (
	"fmt"

	ucfg "github.com/elastic/go-ucfg"
	"github.com/elastic/go-ucfg/json"
	"github.com/elastic/go-ucfg/yaml"
)

func show(label string, c *ucfg.Config, err error) {
	if err != nil {
		fmt.Printf("%-28s ERR %v\n", label, err)
		return
	}
	var m interface{}
	if c.IsArray() && !c.IsDict() {
		var a []interface{}
		err = c.Unpack(&a)
		m = len(a)
	} else {
		var mm map[string]interface{}
		err = c.Unpack(&mm)
		m = mm
	}
	fmt.Printf("%-28s arr=%v dict=%v -> %v %v\n", label, c.IsArray(), c.IsDict(), m, err)
}

func main() {
	for _, en := range []bool{false, true} {
		o := []ucfg.Option{ucfg.PathSep("."), ucfg.EnableNumKeys(en)}
		for _, src := range []string{"5: x", "a: {5: x}", "a: {\"5\": x}", "-5: x", "a: {-5: x}", "a: {0x5: x}", "a: {2000: x}", "a: {1.5: x}", "a: {true: x}", "a: {~: x}", "a.5: x", "a: {5: x, \"5\": y}", "a: {5: x, 0x5: y}"} {
			c, err := yaml.NewConfig([]byte(src), o...)
			show(fmt.Sprintf("yaml en=%v %s", en, src), c, err)
		}
		for _, src := range []string{`{"5": "x"}`, `{"a": {"5": "x"}}`, `{"a": {"-5": "x"}}`, `{"a.5": "x"}`, `{"a":{"5":1,"05":2}}`} {
			c, err := json.NewConfig([]byte(src), o...)
			show(fmt.Sprintf("json en=%v %s", en, src), c, err)
		}
	}
}
