package main

import (
	"fmt"
	"reflect"
	"strconv"
	"strings"

	ucfg "github.com/elastic/go-ucfg"
)

var bad int

func report(f string, a ...interface{}) {
	bad++
	if bad < 60 {
		fmt.Printf("ANOMALY: "+f+"\n", a...)
	}
}

func guard(label string, f func()) {
	defer func() {
		if r := recover(); r != nil {
			report("%s PANIC %v", label, r)
		}
	}()
	f()
}

// oracle: index or not
func isIdx(k string, mx int64, en bool) (int, bool) {
	if en {
		return 0, false
	}
	v, err := strconv.ParseInt(k, 0, 64)
	if err != nil || v < 0 || v > mx {
		return 0, false
	}
	return int(v), true
}

func main() {
	digits := []string{"0", "1", "5", "7", "9", "10", "15", "16", "17", "100", "1024", "1025", "4096", "99999999999", "9223372036854775807", "9223372036854775808", "18446744073709551615", "18446744073709551616"}
	var keys []string
	for _, d := range digits {
		for _, sign := range []string{"", "+", "-"} {
			for _, pre := range []string{"", "0", "00", "0x", "0X", "0o", "0O", "0b", "0B", "0_", "0x_", "_"} {
				keys = append(keys, sign+pre+d)
				if len(d) > 1 {
					keys = append(keys, sign+pre+d[:1]+"_"+d[1:])
				}
			}
		}
	}
	keys = append(keys, "0xff", "0xFF", "0Xfg", "0b12", "0o8", "08", "09", "0_8", "1_", "1__1", "١", "１", "1.", ".1", "1e1", "0x1p4", "Inf", "NaN", "", " ", "1 ", " 1", "1\n", "\t1", "+", "-", "0x", "--1", "++1", "+-1", "true", "a")
	for _, en := range []bool{false, true} {
		for _, mx := range []int64{1024, 0, 1, 15, 16, 17, -1, -5, 5000, 9223372036854775807} {
			for _, k := range keys {
				if mx > 5000 {
					// avoid giant allocations: only small keys
					if v, err := strconv.ParseInt(k, 0, 64); err == nil && v > 5000 {
						continue
					}
				}
				opts := []ucfg.Option{ucfg.MaxIdx(mx), ucfg.EnableNumKeys(en)}
				label := fmt.Sprintf("en=%v mx=%d key=%q", en, mx, k)
				idx, want := isIdx(k, mx, en)

				// 1. NewFrom map key, no separator
				guard(label+" newfrom", func() {
					c, err := ucfg.NewFrom(map[string]interface{}{k: "v"}, opts...)
					if err != nil {
						report("%s newfrom err %v", label, err)
						return
					}
					n, _ := c.CountField("")
					if want {
						if !c.IsArray() || c.IsDict() || n != idx+1 {
							report("%s expected array len %d: arr=%v dict=%v n=%d", label, idx+1, c.IsArray(), c.IsDict(), n)
						}
						s, err := c.String("", idx, opts...)
						if err != nil || s != "v" {
							report("%s get idx: %q %v", label, s, err)
						}
						s, err = c.String(k, -1, opts...)
						if err != nil || s != "v" {
							report("%s get byname: %q %v", label, s, err)
						}
					} else {
						if c.IsArray() || !c.IsDict() || n != 1 {
							report("%s expected dict: arr=%v dict=%v n=%d", label, c.IsArray(), c.IsDict(), n)
						}
						f := c.GetFields()
						if len(f) != 1 || f[0] != k {
							report("%s fields %q", label, f)
						}
						if !c.HasField(k) {
							report("%s HasField false", label)
						}
						var m map[string]interface{}
						if err := c.Unpack(&m, opts...); err != nil || len(m) != 1 || m[k] != "v" {
							report("%s unpack %v %v", label, m, err)
						}
						s, err := c.String(k, -1, opts...)
						if err != nil || s != "v" {
							report("%s get byname: %q %v", label, s, err)
						}
						ok, err := c.Has(k, -1, opts...)
						if !ok || err != nil {
							report("%s has: %v %v", label, ok, err)
						}
						fk := c.FlattenedKeys(opts...)
						if len(fk) != 1 || fk[0] != k {
							report("%s flattened: %q", label, fk)
						}
						ok, err = c.Remove(k, -1, opts...)
						if !ok || err != nil {
							report("%s remove: %v %v", label, ok, err)
						}
					}
				})

				// 2. dotted path a.k.b (only if k has no dot)
				if !strings.Contains(k, ".") {
					guard(label+" dotted", func() {
						o2 := append([]ucfg.Option{ucfg.PathSep(".")}, opts...)
						c, err := ucfg.NewFrom(map[string]interface{}{"a." + k + ".b": "v"}, o2...)
						if err != nil {
							report("%s dotted err %v", label, err)
							return
						}
						idx, want := isIdx(k, mx, false)
						sub, err := c.Child("a", -1)
						if err != nil {
							report("%s dotted child %v", label, err)
							return
						}
						n, _ := sub.CountField("")
						if want {
							if !sub.IsArray() || sub.IsDict() || n != idx+1 {
								report("%s dotted expected array len %d: arr=%v dict=%v n=%d", label, idx+1, sub.IsArray(), sub.IsDict(), n)
							}
						} else {
							if sub.IsArray() || !sub.IsDict() || n != 1 || !sub.HasField(k) {
								report("%s dotted expected dict: arr=%v dict=%v n=%d", label, sub.IsArray(), sub.IsDict(), n)
							}
						}
						s, err := c.String("a."+k+".b", -1, o2...)
						if err != nil || s != "v" {
							report("%s dotted get: %q %v", label, s, err)
						}
						var m map[string]interface{}
						if err := c.Unpack(&m, o2...); err != nil {
							report("%s dotted unpack %v", label, err)
						}
					})
				}

				// 3. struct tag (Merge) and Unpack by struct tag
				if !strings.ContainsAny(k, ",\"`\n\t ") && k != "" {
					guard(label+" tag", func() {
						st := reflect.StructOf([]reflect.StructField{{Name: "F", Type: reflect.TypeOf(""), Tag: reflect.StructTag(`config:"` + k + `"`)}})
						v := reflect.New(st)
						v.Elem().Field(0).SetString("v")
						c, err := ucfg.NewFrom(v.Interface(), opts...)
						if err != nil {
							report("%s tag merge err %v", label, err)
							return
						}
						n, _ := c.CountField("")
						if want {
							if !c.IsArray() || c.IsDict() || n != idx+1 {
								report("%s tag expected array len %d: arr=%v dict=%v n=%d", label, idx+1, c.IsArray(), c.IsDict(), n)
							}
						} else {
							if c.IsArray() || !c.IsDict() || n != 1 || !c.HasField(k) {
								report("%s tag expected dict: arr=%v dict=%v n=%d f=%q", label, c.IsArray(), c.IsDict(), n, c.GetFields())
							}
						}
						out := reflect.New(st)
						if err := c.Unpack(out.Interface(), opts...); err != nil {
							report("%s tag unpack err %v", label, err)
						} else if out.Elem().Field(0).String() != "v" {
							report("%s tag unpack got %q", label, out.Elem().Field(0).String())
						}
						// cross: config from map, unpack by tag
						c2, err := ucfg.NewFrom(map[string]interface{}{k: "v"}, opts...)
						if err == nil {
							out := reflect.New(st)
							if err := c2.Unpack(out.Interface(), opts...); err != nil {
								report("%s tag unpack2 err %v", label, err)
							} else if out.Elem().Field(0).String() != "v" {
								report("%s tag unpack2 got %q", label, out.Elem().Field(0).String())
							}
						}
					})
				}

				// 4. setter + reference
				guard(label+" setter", func() {
					c := ucfg.New()
					err := c.SetString(k, -1, "v", opts...)
					if err != nil {
						report("%s set err %v", label, err)
						return
					}
					n, _ := c.CountField("")
					if want {
						if !c.IsArray() || c.IsDict() || n != idx+1 {
							report("%s set expected array len %d: arr=%v dict=%v n=%d", label, idx+1, c.IsArray(), c.IsDict(), n)
						}
					} else if c.IsArray() || !c.IsDict() || n != 1 || !c.HasField(k) {
						report("%s set expected dict: arr=%v dict=%v n=%d", label, c.IsArray(), c.IsDict(), n)
					}
				})
				if !strings.ContainsAny(k, "${}:.") && k != "" {
					guard(label+" ref", func() {
						o2 := append([]ucfg.Option{ucfg.VarExp}, opts...)
						c, err := ucfg.NewFrom(map[string]interface{}{k: "v", "r": "${" + k + "}"}, o2...)
						if err != nil {
							report("%s ref newfrom err %v", label, err)
							return
						}
						s, err := c.String("r", -1, o2...)
						if err != nil || s != "v" {
							report("%s ref get %q %v", label, s, err)
						}
					})
				}
			}
		}
	}
	fmt.Println("anomalies:", bad, "keys:", len(keys))
}
