package main

import (
	"fmt"
	"regexp"

	ucfg "github.com/elastic/go-ucfg"
)

func main() {
	type T struct{ R *regexp.Regexp }
	in := T{regexp.MustCompilePOSIX("a|ab")}
	c, err := ucfg.NewFrom(in)
	if err != nil {
		panic(err)
	}
	var out T
	if err := c.Unpack(&out); err != nil {
		panic(err)
	}
	fmt.Printf("in finds %q in \"ab\", out finds %q\n", in.R.FindString("ab"), out.R.FindString("ab"))
}
