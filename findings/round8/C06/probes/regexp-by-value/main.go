package main

import (
	"fmt"
	"reflect"
	"regexp"

	ucfg "github.com/elastic/go-ucfg"
)

var _ = regexp.MustCompile
var _ = reflect.DeepEqual

type Inner struct{ X int }

func rt(in interface{}, opts ...ucfg.Option) {
	c, err := ucfg.NewFrom(in, opts...)
	if err != nil {
		fmt.Printf("MERGE ERROR: %.160v\n", err)
		return
	}
	out := reflect.New(reflect.TypeOf(in))
	if err := c.Unpack(out.Interface(), opts...); err != nil {
		fmt.Printf("UNPACK ERROR: %.160v\n", err)
		return
	}
	fmt.Printf("in=%+v out=%+v equal=%v\n", in, out.Elem().Interface(), reflect.DeepEqual(in, out.Elem().Interface()))
}

func main() {
	rt(struct{ R regexp.Regexp }{*regexp.MustCompile("a+")})
	rt(struct{ R []regexp.Regexp }{[]regexp.Regexp{*regexp.MustCompile("a+")}})
	rt(struct{ R map[string]regexp.Regexp }{map[string]regexp.Regexp{"k": *regexp.MustCompile("a+")}})
}
