package main

import (
	"fmt"
	"reflect"
	"regexp"

	ucfg "github.com/elastic/go-ucfg"
)

var _ = regexp.MustCompile
var _ = reflect.DeepEqual

type Inner struct{ X int }

func rt(in interface{}, opts ...ucfg.Option) {
	c, err := ucfg.NewFrom(in, opts...)
	if err != nil {
		fmt.Printf("MERGE ERROR: %.160v\n", err)
		return
	}
	out := reflect.New(reflect.TypeOf(in))
	if err := c.Unpack(out.Interface(), opts...); err != nil {
		fmt.Printf("UNPACK ERROR: %.160v\n", err)
		return
	}
	fmt.Printf("in=%+v out=%+v equal=%v\n", in, out.Elem().Interface(), reflect.DeepEqual(in, out.Elem().Interface()))
}

func main() {
	rt(struct {
		A int
		M map[string]interface{} `config:",inline"`
	}{1, map[string]interface{}{"x": "y"}})
	rt(struct {
		A string
		M map[string]int `config:",inline"`
	}{"s", map[string]int{"x": 2}})
}
