package main

import (
	"fmt"
	"regexp"

	ucfg "github.com/elastic/go-ucfg"
)

type Inner struct{ X int }

func main() {
	// 1. POSIX (leftmost-longest) regexp loses its matching mode
	{
		type T struct{ R *regexp.Regexp }
		in := T{regexp.MustCompilePOSIX("a|ab")}
		c, err := ucfg.NewFrom(in)
		fmt.Println("merge err:", err)
		var out T
		fmt.Println("unpack err:", c.Unpack(&out))
		fmt.Printf("posix regexp: in finds %q, out finds %q\n", in.R.FindString("ab"), out.R.FindString("ab"))
	}
	// 2. inline *Config on Merge is silently dropped (doc says it is supported)
	{
		type T struct {
			C *ucfg.Config `config:",inline"`
		}
		sub := ucfg.MustNewFrom(map[string]interface{}{"a": 1})
		c, err := ucfg.NewFrom(T{sub})
		fmt.Println("inline *Config merge err:", err, "fields:", c.GetFields())
	}
	// 3. interface{} field holding int comes back as uint64
	{
		type T struct{ V interface{} }
		c, _ := ucfg.NewFrom(T{int(5)})
		var out T
		_ = c.Unpack(&out)
		fmt.Printf("interface int: in int(5) out %T(%v)\n", out.V, out.V)
	}
	// 4. pointer to nil pointer comes back as nil
	{
		type T struct{ P **int }
		var ip *int
		c, _ := ucfg.NewFrom(T{&ip})
		var out T
		_ = c.Unpack(&out)
		fmt.Printf("ptr to nil ptr: out.P == nil: %v\n", out.P == nil)
	}
	// 5. map keys that look like numbers in other bases
	{
		type T struct{ M map[string]string }
		c, err := ucfg.NewFrom(T{map[string]string{"0x3": "v"}})
		var out T
		fmt.Println(err, c.Unpack(&out), out.M)
		n, _ := c.CountField("m")
		fmt.Println("count of m:", n)
	}
	// 6. Config by value field
	{
		type T struct{ C ucfg.Config }
		c, err := ucfg.NewFrom(T{*ucfg.MustNewFrom(map[string]interface{}{"a": 1})})
		var out T
		fmt.Println("config by value:", err, c.Unpack(&out))
	}
}
