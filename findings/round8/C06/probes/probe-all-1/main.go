package main

import (
	"fmt"
	"math"
	"reflect"
	"regexp"
	"time"

	ucfg "github.com/elastic/go-ucfg"
)

func rt(name string, in interface{}, opts ...ucfg.Option) {
	defer func() {
		if r := recover(); r != nil {
			fmt.Printf("%-28s PANIC: %v\n", name, r)
		}
	}()
	c, err := ucfg.NewFrom(in, opts...)
	if err != nil {
		fmt.Printf("%-28s MERGE ERR: %v\n", name, err)
		return
	}
	out := reflect.New(reflect.TypeOf(in))
	if err := c.Unpack(out.Interface(), opts...); err != nil {
		fmt.Printf("%-28s UNPACK ERR: %v\n", name, err)
		return
	}
	got := out.Elem().Interface()
	if !reflect.DeepEqual(in, got) {
		fmt.Printf("%-28s DIFF: in=%+v got=%+v\n", name, in, got)
		return
	}
	fmt.Printf("%-28s ok\n", name)
}

type Inner struct{ X int }

func main() {
	rt("map numeric key", struct{ M map[string]int }{map[string]int{"0": 1, "a": 2}})
	rt("map hex key", struct{ M map[string]int }{map[string]int{"0x2": 1}})
	rt("map colliding idx keys", struct{ M map[string]int }{map[string]int{"1": 1, "01": 2}})
	rt("regexp by value", struct{ R regexp.Regexp }{*regexp.MustCompile("a+")})
	rt("slice regexp by value", struct{ R []regexp.Regexp }{[]regexp.Regexp{*regexp.MustCompile("a+")}})
	rt("ptr to array", struct{ P *[2]int }{&[2]int{1, 2}})
	rt("slice of ptr to array", struct{ P []*[2]int }{[]*[2]int{{1, 2}}})
	rt("slice of array", struct{ P [][2]int }{[][2]int{{1, 2}}})
	rt("nil inline ptr", struct {
		*Inner `config:",inline"`
	}{})
	rt("inline ptr", struct {
		*Inner `config:",inline"`
	}{&Inner{3}})
	rt("inline slice", struct {
		L []int `config:",inline"`
	}{[]int{1, 2}})
	rt("inline array", struct {
		L [2]int `config:",inline"`
	}{[2]int{1, 2}})
	rt("inline map + named", struct {
		A int
		M map[string]interface{} `config:",inline"`
	}{1, map[string]interface{}{"x": "y"}})
	rt("inline typed map + named", struct {
		A string
		M map[string]int `config:",inline"`
	}{"s", map[string]int{"x": 2}})
	rt("min duration", struct{ D time.Duration }{math.MinInt64})
	rt("max duration", struct{ D time.Duration }{math.MaxInt64})
	rt("uint64 max", struct{ U uint64 }{math.MaxUint64})
	rt("int64 min", struct{ I int64 }{math.MinInt64})
	rt("float32", struct{ F float32 }{math.MaxFloat32})
	rt("float inf", struct{ F float32 }{float32(math.Inf(-1))})
	rt("tag idx", struct {
		A int `config:"2"`
		B int `config:"n"`
	}{1, 2})
	rt("empty key", struct{ M map[string]int }{map[string]int{"": 1}})
	rt("dotted overlap", struct {
		A *Inner `config:"a"`
		B int    `config:"a.b"`
	}{nil, 1}, ucfg.PathSep("."))
	rt("ptr ptr", struct{ P **Inner }{func() **Inner { p := &Inner{1}; return &p }()})
	rt("ptr to nil map", struct{ P *map[string]int }{new(map[string]int)})
	rt("ptr to empty slice", struct{ P *[]int }{&[]int{}})
	rt("named key map", struct{ M map[K]int }{map[K]int{"a": 1}})
	rt("bytes", struct{ B []byte }{[]byte("hi")})
	rt("str specials", struct{ S []string }{[]string{"${a}", "a.b", "a,b", "{x}", "", " "}})
	rt("embedded", struct{ Inner }{Inner{2}})
	rt("zero array", struct{ A [0]int }{})
	rt("arr of ptr struct", struct{ A [2]*Inner }{[2]*Inner{{1}, {2}}})
	rt("map of slices nil", struct{ M map[string][]int }{map[string][]int{"a": nil}})
	rt("map of struct", struct{ M map[string]Inner }{map[string]Inner{"a": {1}}})
	rt("map of arrays ptr", struct{ M map[string]*[1]int }{map[string]*[1]int{"a": {1}}})
	rt("named dur", struct{ D ND }{ND(5)})
	rt("unicode field", struct{ Ärger int }{5})
	rt("top-level ptr to struct", &Inner{4})
}

type K string
type ND time.Duration
