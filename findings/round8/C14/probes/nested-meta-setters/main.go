package main

import (
	"fmt"

	ucfg "github.com/elastic/go-ucfg"
	"github.com/elastic/go-ucfg/parse"
)

func show(label string, err error) {
	if err == nil {
		fmt.Printf("%-34s: <nil>\n", label)
		return
	}
	e, ok := err.(ucfg.Error)
	if !ok {
		fmt.Printf("%-34s: NOT ucfg.Error (%T): %v\n", label, err, err)
		return
	}
	fmt.Printf("%-34s: reason=%v | path=%q | msg=%q\n", label, e.Reason(), e.Path(), e.Message())
}

func main() {
	meta := ucfg.MetaData(ucfg.Meta{Source: "file.yml"})
	sep := ucfg.PathSep(".")

	// 1. nested unresolvable ref, interface target
	c, _ := ucfg.NewFrom(map[string]interface{}{
		"a": map[string]interface{}{"ok": 1, "deep": map[string]interface{}{"ref": "${nope}"}},
	}, meta, sep, ucfg.VarExp)
	var t1 map[string]interface{}
	show("iface nested ref", c.Unpack(&t1, sep))
	var t1b struct {
		A interface{} `config:"a"`
	}
	show("iface field nested ref", c.Unpack(&t1b, sep))
	var t1c struct {
		A map[string]interface{} `config:"a"`
	}
	show("map iface nested ref", c.Unpack(&t1c, sep))

	// 2. setter with metadata, intermediate nodes
	c2 := ucfg.New()
	show("SetInt", c2.SetInt("a.b.c", -1, 1, sep, meta))
	var t2 struct {
		A struct {
			B int `config:"b"`
		} `config:"a"`
	}
	show("setter intermediate a.b int", c2.Unpack(&t2, sep))
	var t2b struct {
		A struct {
			B struct {
				C bool `config:"c"`
			} `config:"b"`
		} `config:"a"`
	}
	show("setter leaf a.b.c bool", c2.Unpack(&t2b, sep))

	// 3. null nested struct with required
	c3, _ := ucfg.NewFrom(map[string]interface{}{"a": nil, "x": map[string]interface{}{}}, meta, sep)
	var t3 struct {
		A struct {
			B int `config:"b" validate:"required"`
		} `config:"a"`
	}
	show("null struct required", c3.Unpack(&t3, sep))
	var t3b struct {
		X struct {
			B int `config:"b" validate:"required"`
		} `config:"x"`
	}
	show("empty struct required", c3.Unpack(&t3b, sep))
	var t3c struct {
		Q struct {
			B int `config:"b" validate:"required"`
		} `config:"q"`
	}
	show("absent struct required", c3.Unpack(&t3c, sep))

	// 4. resolver returning object with bad element
	c4, _ := ucfg.NewFrom(map[string]interface{}{"a": map[string]interface{}{"r": "${ext}"}}, meta, sep, ucfg.VarExp)
	var t4 struct {
		A struct {
			R []int `config:"r"`
		} `config:"a"`
	}
	show("resolver list bad elem", c4.Unpack(&t4, sep, ucfg.Resolve(func(string) (string, parse.Config, error) {
		return "1,x,3", parse.DefaultConfig, nil
	})))
	var t4b struct {
		A struct {
			R struct{ K int } `config:"r"`
		} `config:"a"`
	}
	show("resolver obj bad elem", c4.Unpack(&t4b, sep, ucfg.Resolve(func(string) (string, parse.Config, error) {
		return "{k: zz}", parse.DefaultConfig, nil
	})))

	// 5. remove shifts list
	c5, _ := ucfg.NewFrom(map[string]interface{}{"l": []interface{}{1, map[string]interface{}{"k": "v"}, "x"}}, meta, sep)
	c5.Remove("l", 0, sep)
	var t5 struct {
		L []struct{ K int } `config:"l"`
	}
	show("after remove l.0.k", c5.Unpack(&t5, sep))

	// 6. SetChild then unpack
	child, _ := ucfg.NewFrom(map[string]interface{}{"k": "v", "l": []interface{}{"q"}}, ucfg.MetaData(ucfg.Meta{Source: "child.yml"}))
	c6, _ := ucfg.NewFrom(map[string]interface{}{"top": map[string]interface{}{}}, meta, sep)
	show("SetChild", c6.SetChild("top.sub", -1, child, sep))
	var t6 struct {
		Top struct {
			Sub struct {
				K int   `config:"k"`
				L []int `config:"l"`
			} `config:"sub"`
		} `config:"top"`
	}
	show("after SetChild", c6.Unpack(&t6, sep))
	fmt.Println("child path:", child.Path("."), "| parent nil:", child.Parent() == nil)

	// 7. merge of configs with list append/prepend
	c7, _ := ucfg.NewFrom(map[string]interface{}{"l": []interface{}{1, 2}}, meta, sep)
	o7, _ := ucfg.NewFrom(map[string]interface{}{"l": []interface{}{"bad"}}, ucfg.MetaData(ucfg.Meta{Source: "other.yml"}), sep)
	show("merge prepend", c7.Merge(o7, ucfg.PrependValues))
	var t7 struct {
		L []int `config:"l"`
	}
	show("after prepend", c7.Unpack(&t7, sep))
	c7b, _ := ucfg.NewFrom(map[string]interface{}{"l": []interface{}{1, 2}}, meta, sep)
	show("merge append", c7b.Merge(o7, ucfg.AppendValues))
	show("after append", c7b.Unpack(&t7, sep))

	// 8. Unpack child directly
	c8, _ := ucfg.NewFrom(map[string]interface{}{"a": map[string]interface{}{"b": []interface{}{map[string]interface{}{"i": "x"}}}}, meta, sep)
	ch, _ := c8.Child("a.b", 0, sep)
	var t8 struct{ I int }
	show("child unpack", ch.Unpack(&t8))
	_, err := ch.Int("i", -1)
	show("child Int", err)
	_, err = ch.Int("zz", -1)
	show("child Int missing", err)

	// 9. unpack into array / slice of wrong thing at top-level
	c9, _ := ucfg.NewFrom([]interface{}{1, "x", 3}, meta)
	var t9 []int
	show("top-level list", c9.Unpack(&t9))
	var t9b [2]int
	show("top-level array size", c9.Unpack(&t9b))
	var t9c int
	show("top-level int", c9.Unpack(&t9c))

	// 10. ref to object, fault inside
	c10, _ := ucfg.NewFrom(map[string]interface{}{
		"base": map[string]interface{}{"n": "abc"},
		"use":  "${base}",
	}, meta, sep, ucfg.VarExp)
	var t10 struct {
		Use struct{ N int } `config:"use"`
	}
	show("ref to object fault inside", c10.Unpack(&t10, sep))

	// 11. env
	env, _ := ucfg.NewFrom(map[string]interface{}{"e": map[string]interface{}{"n": "abc"}}, ucfg.MetaData(ucfg.Meta{Source: "env.yml"}), sep)
	c11, _ := ucfg.NewFrom(map[string]interface{}{"use": "${e.n}"}, meta, sep, ucfg.VarExp)
	var t11 struct {
		Use int `config:"use"`
	}
	show("env ref fault", c11.Unpack(&t11, sep, ucfg.Env(env)))
}
