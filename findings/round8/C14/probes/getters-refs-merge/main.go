package main

import (
	"errors"
	"fmt"

	ucfg "github.com/elastic/go-ucfg"
	"github.com/elastic/go-ucfg/parse"
)

func show(label string, err error) {
	if err == nil {
		fmt.Printf("%-34s: <nil>\n", label)
		return
	}
	e, ok := err.(ucfg.Error)
	if !ok {
		fmt.Printf("%-34s: NOT ucfg.Error (%T): %v\n", label, err, err)
		return
	}
	fmt.Printf("%-34s: reason=%v | class=%v | path=%q | msg=%q\n", label, e.Reason(), e.Class(), e.Path(), e.Message())
}

type U struct{ s string }

func (u *U) Unpack(v interface{}) error { return errors.New("unpacker says no") }

type SU struct{ s string }

func (u *SU) Unpack(s string) error { return errors.New("string unpacker says no") }

func main() {
	meta := ucfg.MetaData(ucfg.Meta{Source: "file.yml"})
	sep := ucfg.PathSep(".")
	m := map[string]interface{}{
		"a": map[string]interface{}{
			"n":   5,
			"s":   "str",
			"sub": map[string]interface{}{"x": 1},
			"l":   []interface{}{1, "two", map[string]interface{}{"k": "v"}},
			"ref": "${a.nope}",
			"ref2": "${a.sub}",
			"cyc": "${a.cyc}",
			"must": "${a.nope:?custom failure}",
			"spl": "x-${a.nope}-y",
		},
	}
	c, err := ucfg.NewFrom(m, meta, sep, ucfg.VarExp)
	show("newfrom", err)

	_, err = c.Int("a.n.b", -1, sep)
	show("Int a.n.b (a.n prim)", err)
	_, err = c.Int("a.zz.b", -1, sep)
	show("Int a.zz.b (missing mid)", err)
	_, err = c.Int("a.sub.zz", -1, sep)
	show("Int a.sub.zz (missing leaf)", err)
	_, err = c.Int("a.s", -1, sep)
	show("Int a.s (string)", err)
	_, err = c.Int("a.l", 1, sep)
	show("Int a.l[1]", err)
	_, err = c.Int("a.l", 7, sep)
	show("Int a.l[7]", err)
	_, err = c.Int("a.l.2.k", -1, sep)
	show("Int a.l.2.k", err)
	_, err = c.Child("a.n", -1, sep)
	show("Child a.n", err)
	_, err = c.Child("a.l", 1, sep)
	show("Child a.l[1]", err)
	_, err = c.String("a.ref", -1, sep)
	show("String a.ref", err)
	_, err = c.String("a.ref2", -1, sep)
	show("String a.ref2 (obj)", err)
	_, err = c.String("a.cyc", -1, sep)
	show("String a.cyc", err)
	_, err = c.String("a.must", -1, sep)
	show("String a.must", err)
	_, err = c.String("a.spl", -1, sep)
	show("String a.spl", err)
	_, err = c.Has("a.n.b", -1, sep)
	show("Has a.n.b", err)
	_, err = c.Has("a.ref.b", -1, sep)
	show("Has a.ref.b", err)
	_, err = c.Remove("a.n.b", -1, sep)
	show("Remove a.n.b", err)
	_, err = c.Remove("a.n.b.c", -1, sep)
	show("Remove a.n.b.c", err)
	sub, _ := c.Child("a", -1)
	_, err = sub.CountField("ref")
	show("CountField a.ref", err)
	_, err = sub.CountField("zz")
	show("CountField a.zz", err)
	_, err = sub.Int("n.b", -1, sep)
	show("sub.Int n.b", err)
	_, err = sub.Int("zz.b", -1, sep)
	show("sub.Int zz.b", err)
	err = c.SetInt("a.n.b", -1, 3, sep)
	show("SetInt a.n.b", err)
	err = c.SetInt("a.l", 5000, 3, sep)
	show("SetInt a.l[5000]", err)
	err = c.SetInt("a.s", 2, 3, sep)
	show("SetInt a.s[2]", err)
	err = c.SetChild("a.x", -1, nil, sep)
	show("SetChild nil", err)

	// unpack refs
	var t1 struct {
		A struct {
			Ref string `config:"ref"`
		} `config:"a"`
	}
	show("unpack a.ref string", c.Unpack(&t1, sep))
	var t2 struct {
		A struct {
			Ref interface{} `config:"ref"`
		} `config:"a"`
	}
	show("unpack a.ref iface", c.Unpack(&t2, sep))
	var t3 struct {
		A struct {
			Ref []int `config:"ref"`
		} `config:"a"`
	}
	show("unpack a.ref []int", c.Unpack(&t3, sep))
	var t4 struct {
		A struct {
			Ref struct{ X int } `config:"ref"`
		} `config:"a"`
	}
	show("unpack a.ref struct", c.Unpack(&t4, sep))
	var t5 struct {
		A struct {
			Ref map[string]int `config:"ref"`
		} `config:"a"`
	}
	show("unpack a.ref map", c.Unpack(&t5, sep))
	var t6 struct {
		A struct {
			Ref *ucfg.Config `config:"ref"`
		} `config:"a"`
	}
	show("unpack a.ref *Config", c.Unpack(&t6, sep))
	var t7 struct {
		A struct {
			Ref U `config:"s"`
		} `config:"a"`
	}
	show("unpack a.s Unpacker", c.Unpack(&t7, sep))
	var t8 struct {
		A struct {
			Ref SU `config:"n"`
			L []SU `config:"l"`
		} `config:"a"`
	}
	show("unpack a.n StringUnpacker", c.Unpack(&t8, sep))
	var t9 struct {
		A struct {
			Must string `config:"must"`
		} `config:"a"`
	}
	show("unpack a.must", c.Unpack(&t9, sep))
	var t10 struct {
		A struct {
			Cyc int `config:"cyc"`
		} `config:"a"`
	}
	show("unpack a.cyc", c.Unpack(&t10, sep))
	var t11 map[string]interface{}
	show("unpack all into map iface", c.Unpack(&t11, sep))

	// resolver returning plain error
	var t12 struct {
		A struct {
			Ref string `config:"ref"`
		} `config:"a"`
	}
	show("unpack resolver err", c.Unpack(&t12, sep, ucfg.Resolve(func(string) (string, parse.Config, error) {
		return "", parse.DefaultConfig, errors.New("vault down")
	})))
	// resolver returning unparsable
	show("unpack resolver bad value", c.Unpack(&t12, sep, ucfg.Resolve(func(string) (string, parse.Config, error) {
		return "[1,2", parse.DefaultConfig, nil
	})))
	var t13 struct {
		A struct {
			Ref int `config:"ref"`
		} `config:"a"`
	}
	show("unpack resolver non-int", c.Unpack(&t13, sep, ucfg.Resolve(func(string) (string, parse.Config, error) {
		return "abc", parse.DefaultConfig, nil
	})))

	// merge errors
	_, err = ucfg.NewFrom(map[string]interface{}{"a": map[string]interface{}{"b": []interface{}{"ok", "${open"}}}, meta, sep, ucfg.VarExp)
	show("merge bad splice in list", err)
	_, err = ucfg.NewFrom(map[string]interface{}{"a": map[string]interface{}{"b": "${open"}}, meta, sep, ucfg.VarExp)
	show("merge bad splice in map", err)
	_, err = ucfg.NewFrom(map[string]interface{}{"a": map[string]interface{}{"b": make(chan int)}}, meta, sep)
	show("merge chan in map", err)
	_, err = ucfg.NewFrom(map[string]interface{}{"a": map[string]interface{}{"b": 1, "b.c": 2}}, meta, sep)
	show("merge dup key", err)
	_, err = ucfg.NewFrom(map[string]interface{}{"a": map[string]interface{}{"b.c": 2, "b": 1}}, meta, sep)
	show("merge dup key2", err)
	_, err = ucfg.NewFrom(map[string]interface{}{"a": map[int]interface{}{1: 2}}, meta, sep)
	show("merge int key map", err)
	_, err = ucfg.NewFrom(5, meta, sep)
	show("merge top-level int", err)
	type Sq struct {
		X int `config:",inline"`
	}
	_, err = ucfg.NewFrom(map[string]interface{}{"a": Sq{1}}, meta, sep)
	show("merge squash int", err)
}
