package main

import (
	"fmt"

	ucfg "github.com/elastic/go-ucfg"
)

func show(label string, err error) {
	if err == nil {
		fmt.Printf("%-34s: <nil>\n", label)
		return
	}
	e, ok := err.(ucfg.Error)
	if !ok {
		fmt.Printf("%-34s: NOT ucfg.Error (%T): %v\n", label, err, err)
		return
	}
	fmt.Printf("%-34s: reason=%v | path=%q | msg=%q\n", label, e.Reason(), e.Path(), e.Message())
}

func main() {
	sep := ucfg.PathSep(".")
	a := ucfg.MetaData(ucfg.Meta{Source: "a.yml"})
	b := ucfg.MetaData(ucfg.Meta{Source: "b.yml"})

	// H8: tag path through a primitive: silently ignored?
	c, _ := ucfg.NewFrom(map[string]interface{}{"sub": 5}, a, sep)
	var t1 struct {
		X int `config:"sub.name"`
	}
	err := c.Unpack(&t1, sep)
	show("tag path through primitive", err)
	fmt.Println("  X =", t1.X)

	// H9: empty key cuts the path
	c2, _ := ucfg.NewFrom(map[string]interface{}{"a": map[string]interface{}{"": map[string]interface{}{"x": "abc"}}}, a)
	var t2 map[string]map[string]map[string]int
	show("empty key cuts path", c2.Unpack(&t2))

	// H10: castArr reports the parent's source
	c3, _ := ucfg.NewFrom(map[string]interface{}{"s": map[string]interface{}{"x": 1}}, a, sep)
	show("merge b", c3.Merge(map[string]interface{}{"s": map[string]interface{}{"l": "${nope}", "p": nil, "q": "${nope}"}}, b, sep, ucfg.VarExp))
	var t3 struct {
		S struct {
			L []int `config:"l"`
		} `config:"s"`
	}
	show("castArr ref source", c3.Unpack(&t3, sep))
	var t3b struct {
		S struct {
			Q int `config:"q"`
		} `config:"s"`
	}
	show("(control) int ref source", c3.Unpack(&t3b, sep))
	var t3c struct {
		S struct {
			P *int `config:"p" validate:"required"`
		} `config:"s"`
	}
	show("null from b.yml required", c3.Unpack(&t3c, sep))

	// RegisterValidator
	err = ucfg.RegisterValidator("nonzero", func(interface{}, string) error { return nil })
	show("RegisterValidator dup", err)

	// arrays as map values / behind nil pointers
	c5, _ := ucfg.NewFrom(map[string]interface{}{"m": map[string]interface{}{"k": []int{1, 2}}, "p": []int{1, 2}}, a)
	var t5 struct {
		M map[string][2]int `config:"m"`
	}
	show("array as map value", c5.Unpack(&t5))
	var t5b struct {
		P *[2]int `config:"p"`
	}
	show("array behind nil ptr", c5.Unpack(&t5b))

	// nil receiver
	func() {
		defer func() {
			if r := recover(); r != nil {
				fmt.Println("nil receiver Merge: PANIC", r)
			}
		}()
		var nc *ucfg.Config
		show("nil receiver Merge", nc.Merge(map[string]interface{}{"a": 1}))
	}()
	func() {
		defer func() {
			if r := recover(); r != nil {
				fmt.Println("nil receiver Int: PANIC", r)
			}
		}()
		var nc *ucfg.Config
		_, err := nc.Int("a", -1)
		show("nil receiver Int", err)
	}()
}
