package main

import (
	"errors"
	"fmt"
	"regexp"
	"time"

	ucfg "github.com/elastic/go-ucfg"
)

func show(label string, err error) {
	if err == nil {
		fmt.Printf("%-40s: <nil>\n", label)
		return
	}
	e, ok := err.(ucfg.Error)
	if !ok {
		fmt.Printf("%-40s: NOT ucfg.Error (%T): %v\n", label, err, err)
		return
	}
	fmt.Printf("%-40s: reason=%v class=%v path=%q msg=%q\n", label, e.Reason(), e.Class(), e.Path(), e.Message())
}

type V struct{ N int }

func (v V) Validate() error {
	if v.N < 0 {
		return errors.New("neg")
	}
	return nil
}

type Inner struct {
	I   int            `config:"i"`
	D   time.Duration  `config:"d"`
	R   *regexp.Regexp `config:"r"`
	U   uint8          `config:"u"`
	Arr [2]int         `config:"arr"`
	P   *int           `config:"p" validate:"min=3"`
	V   V              `config:"v"`
	M   map[string]int `config:"m"`
	S   []V            `config:"s"`
}

type Outer struct {
	A struct {
		B []Inner `config:"b"`
	} `config:"a"`
	In   Inner             `config:",inline"`
	MP   map[string]*Inner `config:"mp"`
}

func main() {
	meta := ucfg.MetaData(ucfg.Meta{Source: "file.yml"})
	mk := func(m map[string]interface{}, o ...ucfg.Option) *ucfg.Config {
		o = append(o, meta)
		c, err := ucfg.NewFrom(m, o...)
		if err != nil {
			show("newfrom", err)
			panic(err)
		}
		return c
	}
	inList := func(k string, v interface{}) map[string]interface{} {
		return map[string]interface{}{"a": map[string]interface{}{"b": []interface{}{map[string]interface{}{}, map[string]interface{}{k: v}}}}
	}
	inMap := func(k string, v interface{}) map[string]interface{} {
		return map[string]interface{}{"mp": map[string]interface{}{"x": map[string]interface{}{k: v}}}
	}
	inInline := func(k string, v interface{}) map[string]interface{} {
		return map[string]interface{}{k: v}
	}
	faults := []struct {
		k string
		v interface{}
	}{
		{"i", "abc"},
		{"i", map[string]interface{}{"x": 1}},
		{"d", "5 parsecs"},
		{"r", "(("},
		{"u", 300},
		{"u", -1},
		{"arr", []int{1, 2, 3}},
		{"arr", []interface{}{1, "x"}},
		{"p", 2},
		{"v", map[string]interface{}{"n": -1}},
		{"m", 5},
		{"m", map[string]interface{}{"k": "zz"}},
		{"s", []interface{}{map[string]interface{}{"n": 1}, map[string]interface{}{"n": -2}}},
		{"s", []interface{}{map[string]interface{}{"n": 1}, 7}},
	}
	for _, f := range faults {
		for name, wrap := range map[string]func(string, interface{}) map[string]interface{}{"list": inList, "map": inMap, "inline": inInline} {
			var o Outer
			err := mk(wrap(f.k, f.v)).Unpack(&o)
			show(fmt.Sprintf("%s %s=%v", name, f.k, f.v), err)
		}
	}
}
