package main

import (
	"fmt"
	"math/rand"

	"github.com/elastic/go-ucfg/parse"
)

func main() {
	r := rand.New(rand.NewSource(7))
	alpha := []byte("[]{}\"',:\\ a1\n-.eu0")
	bad := 0
	lists := 0
	for i := 0; i < 2000000 && bad < 10; i++ {
		n := r.Intn(10)
		b := make([]byte, n)
		for j := range b {
			b[j] = alpha[r.Intn(len(alpha))]
		}
		in := string(b)
		bits := r.Intn(32)
		cfg := parse.Config{Array: bits&1 != 0, Object: bits&2 != 0, StringDQuote: bits&4 != 0, StringSQuote: bits&8 != 0, IgnoreCommas: bits&16 != 0}
		if cfg.Object && !cfg.Array {
			continue
		}
		func() {
			defer func() {
				if e := recover(); e != nil {
					bad++
					fmt.Printf("PANIC %v on %q cfg=%+v\n", e, in, cfg)
				}
			}()
			v, err := parse.ValueWithConfig(in, cfg)
			if err == nil && bits == 16 {
				// noop-like (only IgnoreCommas): result must be a primitive, never a container
				switch v.(type) {
				case []interface{}, map[string]interface{}:
					bad++
					fmt.Printf("CONTAINER under noop: %q => %#v\n", in, v)
				}
			}
			if err == nil && cfg.IgnoreCommas && !cfg.Array && !cfg.Object {
				if _, ok := v.([]interface{}); ok && lists < 5 {
					lists++
					fmt.Printf("LIST with IgnoreCommas, no arrays: %q cfg=%+v => %#v\n", in, cfg, v)
				}
			}
		}()
	}
	fmt.Println("done bad =", bad)
}
