// With Object disabled a '{' is "taken literally", i.e. read as an unquoted
// string up to the next stop character. Inside an array that works for
// {a:1,b:2} (two strings "{a:1" and "b:2}"), but as soon as the second member
// starts with a quoted key the remainder `"b":2}` is dispatched to the quoted
// string reader and the ':' behind it is a syntax error: the literal reading
// is not available for ordinary JSON objects inside arrays.
package main

import (
	"fmt"

	"github.com/elastic/go-ucfg/parse"
)

func main() {
	for _, in := range []string{`[{a:1,b:2}]`, `[{"a":1}]`, `[{"a":1,"b":2}]`, `{"a":1,"b":2}`, `{"a":1},{"b":2}`} {
		v, err := parse.ValueWithConfig(in, parse.EnvConfig)
		fmt.Printf("EnvConfig %-20q => %#v err=%v\n", in, v, err)
	}
}
