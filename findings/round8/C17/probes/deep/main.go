package main

import (
	"fmt"
	"os"
	"strconv"
	"strings"
	"time"

	"github.com/elastic/go-ucfg/parse"
)

func main() {
	n, _ := strconv.Atoi(os.Args[1])
	in := strings.Repeat("[", n) + "1" + strings.Repeat("]", n)
	t := time.Now()
	v, err := parse.Value(in)
	d := 0
	for {
		l, ok := v.([]interface{})
		if !ok {
			break
		}
		d++
		v = l[0]
	}
	fmt.Println("depth", d, "leaf", v, "err", err != nil, time.Since(t))
	// wide
	in = "[" + strings.Repeat(`"x",`, n) + `"x"]`
	t = time.Now()
	v, err = parse.Value(in)
	fmt.Println("wide", len(v.([]interface{})), err, time.Since(t))
}
