package main

import (
	"fmt"

	"github.com/elastic/go-ucfg/parse"
)

func show(label, in string, cfg parse.Config) {
	defer func() {
		if e := recover(); e != nil {
			fmt.Printf("%-28s %-28q PANIC %v\n", label, in, e)
		}
	}()
	v, err := parse.ValueWithConfig(in, cfg)
	fmt.Printf("%-28s %-28q => %#v  err=%v\n", label, in, v, err)
}

func main() {
	d := parse.DefaultConfig
	ic := d
	ic.IgnoreCommas = true

	// IgnoreCommas
	show("ignorecommas", `a,b`, ic)
	show("ignorecommas", `"a",b`, ic)
	show("ignorecommas", `"a","b"`, ic)
	show("ignorecommas", `[1],[2]`, ic)
	show("ignorecommas", `{"a":1},x`, ic)
	show("ignorecommas", `'a',b`, ic)
	show("ignorecommas", `[1,2]`, ic)
	show("ignorecommas", `{"a":[1,2],"b":2}`, ic)
	show("ignorecommas", `,`, ic)
	show("ignorecommas", `1,2`, ic)

	// empties
	show("empty", `[[]]`, d)
	show("empty", `[{}]`, d)
	show("empty", `{"a":{}}`, d)
	show("empty", `{"a":[]}`, d)
	show("empty", `[null]`, d)
	show("empty", `{"a":null}`, d)
	show("empty", `""`, d)
	show("empty", `[""]`, d)
	show("empty", `{"":""}`, d)

	// numbers
	for _, n := range []string{"0", "-0", "-0.0", "0.0", "1e2", "1E2", "1e+2", "1e-2", "0e0", "1e400", "-1e400", "1e-400", "18446744073709551615", "18446744073709551616", "-9223372036854775808", "-9223372036854775809", "9007199254740993", "123456789012345678901234567890", "0.1e1", "1.0"} {
		show("num", n, d)
		show("num-in-arr", "[ "+n+" ]", d)
	}

	// strings
	for _, s := range []string{`"\\"`, `"a\\"`, `"\\\""`, `"\/"`, `"\ud83d\ude00"`, `"\uD83D\uDE00"`, `"\ud800"`, `"\u0000"`, `"\b\f\n\r\t"`, `"'"`, `"it's"`, `"a,b"`, `"]"`, `"\u00e9\/"`, "\"\x7f\"", `"\u2028"`, "\"\u2028\"", `"\\u0041"`, `"\\/"`} {
		show("str", s, d)
		show("str-key", `{`+s+`:`+s+`}`, d)
	}

	// disabled
	noD := d
	noD.StringDQuote = false
	show("noDQ", `"a"`, noD)
	show("noDQ", `["a","b"]`, noD)
	show("noDQ", `{"a":"b"}`, noD)
	show("noDQ", `"a,b"`, noD)
	noS := d
	noS.StringSQuote = false
	show("noSQ", `'a'`, noS)
	show("noSQ", `{'a':'b'}`, noS)
	noO := parse.EnvConfig
	show("noObj", `{"a":1}`, noO)
	show("noObj", `[{"a":1}]`, noO)
	show("noObj", `[{"a":1,"b":2}]`, noO)
	show("noObj", `{"a":[1,2]}`, noO)
	noA := parse.Config{StringDQuote: true, StringSQuote: true}
	show("noArr", `[1]`, noA)
	show("noArr", `["a"]`, noA)
	show("noArr", `[]`, noA)
	show("noop", `"a",b`, parse.NoopConfig)
	show("noop", ` [1, 2] `, parse.NoopConfig)
	show("noop", "a\n,b", parse.NoopConfig)

	// whitespace
	show("ws", "\n[\n 1\n ,\n 2\n]\n", d)
	show("ws", "{\r\n\t\"a\"\r\n:\r\n1\r\n}", d)
	show("ws", "\u00a0[1]\u00a0", d)
	show("ws", "[\u00a01\u00a0]", d)
	show("ws", "[1]\x00", d)
	show("trailing", `[1] x`, d)
	show("trailing", `"a" "b"`, d)
	show("trailing", `{"a":1}}`, d)
	show("trailing", `1 2`, d)
	show("dup", `{"a":1,"a":2}`, d)
}
