package main

import (
	"bytes"
	"encoding/json"
	"fmt"
	"math"
	"math/rand"
	"reflect"
	"strings"

	"github.com/elastic/go-ucfg/parse"
)

// normalise: expected from encoding/json (UseNumber) vs parse result
func genString(r *rand.Rand) string {
	alphabet := []string{"a", "b", " ", "\"", "\\", "/", "'", ",", ":", "[", "]", "{", "}", "\n", "\t", "\x00", "\x1f", "\x7f", "é", "😀", " ", "\\u", "\\n", "null", "true", "1", "#", "$", "${x}", "\r", "\b", "\f", "<", ">", "&"}
	n := r.Intn(6)
	var sb strings.Builder
	for i := 0; i < n; i++ {
		sb.WriteString(alphabet[r.Intn(len(alphabet))])
	}
	return sb.String()
}

func gen(r *rand.Rand, depth int) interface{} {
	k := r.Intn(8)
	if depth <= 0 && k >= 6 {
		k = r.Intn(6)
	}
	switch k {
	case 0:
		return nil
	case 1:
		return r.Intn(2) == 0
	case 2:
		switch r.Intn(5) {
		case 0:
			return uint64(r.Intn(10))
		case 1:
			return r.Uint64()
		case 2:
			return -int64(r.Uint64() >> 1)
		case 3:
			return int64(math.MinInt64)
		default:
			return uint64(math.MaxUint64)
		}
	case 3:
		switch r.Intn(5) {
		case 0:
			return r.NormFloat64()
		case 1:
			return math.Float64frombits(r.Uint64()) // may be NaN/Inf; filtered
		case 2:
			return float64(r.Intn(100)) + 0.5
		case 3:
			return math.MaxFloat64
		default:
			return math.SmallestNonzeroFloat64
		}
	case 4, 5:
		return genString(r)
	case 6:
		n := r.Intn(4)
		l := make([]interface{}, n)
		for i := range l {
			l[i] = gen(r, depth-1)
		}
		return l
	default:
		n := r.Intn(4)
		m := map[string]interface{}{}
		for i := 0; i < n; i++ {
			m[genString(r)] = gen(r, depth-1)
		}
		return m
	}
}

func valid(v interface{}) bool {
	switch x := v.(type) {
	case float64:
		return !math.IsNaN(x) && !math.IsInf(x, 0)
	case []interface{}:
		for _, e := range x {
			if !valid(e) {
				return false
			}
		}
	case map[string]interface{}:
		for _, e := range x {
			if !valid(e) {
				return false
			}
		}
	}
	return true
}

// equal up to: empty containers == nil, numeric equality
func equal(want, got interface{}) bool {
	switch w := want.(type) {
	case nil:
		return got == nil
	case bool, string:
		return reflect.DeepEqual(want, got)
	case uint64:
		switch g := got.(type) {
		case uint64:
			return g == w
		case int64:
			return g >= 0 && uint64(g) == w
		}
		return false
	case int64:
		switch g := got.(type) {
		case int64:
			return g == w
		case uint64:
			return w >= 0 && uint64(w) == g
		}
		return false
	case float64:
		switch g := got.(type) {
		case float64:
			return g == w
		case uint64:
			return float64(g) == w
		case int64:
			return float64(g) == w
		}
		return false
	case []interface{}:
		if len(w) == 0 {
			return got == nil
		}
		g, ok := got.([]interface{})
		if !ok || len(g) != len(w) {
			return false
		}
		for i := range w {
			if !equal(w[i], g[i]) {
				return false
			}
		}
		return true
	case map[string]interface{}:
		if len(w) == 0 {
			return got == nil
		}
		g, ok := got.(map[string]interface{})
		if !ok || len(g) != len(w) {
			return false
		}
		for k := range w {
			gv, ok := g[k]
			if !ok || !equal(w[k], gv) {
				return false
			}
		}
		return true
	}
	return false
}

func encode(v interface{}, mode int) string {
	var buf bytes.Buffer
	enc := json.NewEncoder(&buf)
	enc.SetEscapeHTML(mode&1 == 1)
	if mode&2 == 2 {
		enc.SetIndent("", "  ")
	}
	if mode&4 == 4 {
		enc.SetIndent("\t", "\t")
	}
	if err := enc.Encode(v); err != nil {
		panic(err)
	}
	s := buf.String()
	if mode&8 == 8 {
		// escape all non-ASCII as \uXXXX (with surrogates) and '/' as \/
		var sb strings.Builder
		for _, c := range s {
			switch {
			case c == '/':
				sb.WriteString(`\/`)
			case c > 0xffff:
				c -= 0x10000
				fmt.Fprintf(&sb, `\u%04X\u%04x`, 0xd800+(c>>10), 0xdc00+(c&0x3ff))
			case c > 127:
				fmt.Fprintf(&sb, `\u%04X`, c)
			default:
				sb.WriteRune(c)
			}
		}
		s = sb.String()
	}
	return s
}

func main() {
	r := rand.New(rand.NewSource(1))
	bad := 0
	for i := 0; i < 300000 && bad < 15; i++ {
		v := gen(r, 3)
		if !valid(v) {
			continue
		}
		mode := r.Intn(16)
		txt := encode(v, mode)
		func() {
			defer func() {
				if e := recover(); e != nil {
					bad++
					fmt.Printf("PANIC %v on %q\n", e, txt)
				}
			}()
			for _, cfg := range []parse.Config{parse.DefaultConfig, {Array: true, Object: true, StringDQuote: true, StringSQuote: false, IgnoreCommas: true}} {
				got, err := parse.ValueWithConfig(txt, cfg)
				if err != nil {
					bad++
					fmt.Printf("ERR %v\n", err)
					return
				}
				if !equal(v, got) {
					bad++
					fmt.Printf("DIFF on %q: want %#v got %#v\n", txt, v, got)
					return
				}
			}
		}()
	}
	fmt.Println("done, bad =", bad)
}
