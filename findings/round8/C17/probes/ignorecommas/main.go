// IgnoreCommas only switches off the comma as a stop character of an unquoted
// top-level string. When the first top-level value is quoted or bracketed the
// loop in flagParser.parse still consumes ',' and collects a list.
package main

import (
	"fmt"
	"os"

	ucfg "github.com/elastic/go-ucfg"
	"github.com/elastic/go-ucfg/parse"
)

func main() {
	cfg := parse.DefaultConfig
	cfg.IgnoreCommas = true
	for _, in := range []string{`a,b`, `"a",b`, `'a',b`, `[1],[2]`, `{"k":1},x`} {
		v, err := parse.ValueWithConfig(in, cfg)
		fmt.Printf("IgnoreCommas %-12q => %#v err=%v\n", in, v, err)
	}
	// even with every syntax but one quote style disabled
	v, err := parse.ValueWithConfig(`'a',b`, parse.Config{StringSQuote: true, IgnoreCommas: true})
	fmt.Printf("only SQuote+IgnoreCommas 'a',b => %#v err=%v\n", v, err)

	// reachable through the root package: ucfg.IgnoreCommas with a resolved variable
	os.Setenv("HUNT_VAL", `"a",b`)
	c, err := ucfg.NewFrom(map[string]interface{}{"x": "${HUNT_VAL}"}, ucfg.VarExp, ucfg.ResolveEnv, ucfg.IgnoreCommas)
	if err != nil {
		fmt.Println("NewFrom:", err)
		return
	}
	var out map[string]interface{}
	err = c.Unpack(&out, ucfg.VarExp, ucfg.ResolveEnv, ucfg.IgnoreCommas)
	fmt.Printf("ucfg x=${HUNT_VAL} (%s) with IgnoreCommas => %#v err=%v\n", os.Getenv("HUNT_VAL"), out["x"], err)
}
