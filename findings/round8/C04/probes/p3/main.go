package main

import (
	"errors"
	"fmt"
	"time"

	ucfg "github.com/elastic/go-ucfg"
)

type Inner struct {
	N int `config:"n" validate:"min=1"`
}

type InnerV struct {
	N int `config:"n"`
}

func (i *InnerV) Validate() error {
	if i.N == 0 {
		return errors.New("InnerV.N must not be 0")
	}
	return nil
}

type ValV struct {
	N int `config:"n"`
}

func (i ValV) Validate() error {
	if i.N == 0 {
		return errors.New("ValV.N must not be 0")
	}
	return nil
}

type Hosts []string

func (h Hosts) Validate() error {
	if len(h) > 1 {
		return errors.New("too many hosts")
	}
	return nil
}

type Defaults struct {
	N int           `config:"n" validate:"min=1"`
	D time.Duration `config:"d" validate:"min=1s"`
}

func (d *Defaults) InitDefaults() { d.N = 0; d.D = 0 }

func try(name string, cfgMap map[string]interface{}, to interface{}, opts ...ucfg.Option) {
	c, err := ucfg.NewFrom(cfgMap, opts...)
	if err != nil {
		fmt.Printf("%-40s NewFrom err: %v\n", name, err)
		return
	}
	func() {
		defer func() {
			if r := recover(); r != nil {
				fmt.Printf("%-40s PANIC: %v\n", name, r)
			}
		}()
		err = c.Unpack(to, opts...)
		fmt.Printf("%-40s err=%v  result=%+v\n", name, err, to)
	}()
}

type M = map[string]interface{}

func main() {
	{
		t := &struct {
			I Inner `config:",inline"`
		}{}
		try("inline struct min", M{}, t)
		t2 := &struct {
			I *Inner `config:",inline"`
		}{I: &Inner{}}
		try("inline *struct min", M{}, t2)
		t3 := &struct {
			I InnerV `config:",inline"`
		}{}
		try("inline struct Validate", M{}, t3)
		t4 := &struct {
			I interface{} `config:",inline"`
		}{I: &InnerV{}}
		try("inline iface *InnerV Validate", M{}, t4)
		t5 := &struct {
			I []int `config:",inline" validate:"required"`
		}{}
		try("inline []int required", M{}, t5)
		t6 := &struct {
			I map[string]InnerV `config:",inline"`
		}{}
		try("inline map InnerV", M{"x": M{"n": 0}}, t6)
	}
	{
		t := &struct {
			A [2]int `config:"a" validate:"nonzero"`
		}{}
		try("[2]int nonzero absent", M{}, t)
		t2 := &struct {
			A [0]int `config:"a" validate:"nonzero"`
		}{}
		try("[0]int nonzero absent", M{}, t2)
		t3 := &struct {
			A [2]Inner `config:"a"`
		}{}
		try("[2]Inner absent", M{}, t3)
		t4 := &struct {
			A [2]*InnerV `config:"a"`
		}{A: [2]*InnerV{{}, {N: 1}}}
		try("[2]*InnerV prefilled", M{}, t4)
	}
	{
		// top-level map prefilled
		m := map[string]Inner{"a": {N: 0}}
		try("top map prefilled, other key", M{"b": M{"n": 2}}, &m)
		m2 := map[string]interface{}{"a": &InnerV{}}
		try("top map iface prefilled, other key", M{"b": 1}, &m2)
		m3 := map[string]interface{}{"a": &Inner{}}
		try("top map iface *Inner prefilled, empty", M{}, &m3)
		s := []Inner{{N: 0}, {N: 0}}
		try("top slice prefilled longer", M{"0": M{"n": 1}}, &s)
	}
	{
		t := &struct {
			H Hosts `config:"h"`
		}{}
		try("Hosts Validate 2 entries", M{"h": []interface{}{"a", "b"}}, t)
		t2 := &struct {
			H Hosts `config:"h"`
		}{H: Hosts{"a", "b"}}
		try("Hosts Validate prefilled", M{}, t2)
		t3 := &struct {
			H *Hosts `config:"h"`
		}{}
		try("*Hosts Validate 2 entries", M{"h": []interface{}{"a", "b"}}, t3)
		t4 := &struct {
			V ValV `config:"v"`
		}{}
		try("ValV value receiver", M{"v": M{"n": 0}}, t4)
		t5 := &struct {
			V *ValV `config:"v"`
		}{}
		try("*ValV value receiver", M{"v": M{"n": 0}}, t5)
		t6 := &struct {
			V map[string]ValV `config:"v"`
		}{}
		try("map ValV", M{"v": M{"k": M{"n": 0}}}, t6)
		t7 := &struct {
			V []ValV `config:"v"`
		}{}
		try("[]ValV", M{"v": []interface{}{M{"n": 0}}}, t7)
	}
	{
		t := &struct {
			D Defaults `config:"d"`
		}{}
		try("InitDefaults invalid nested", M{}, t)
		t2 := &struct {
			D *Defaults `config:"d"`
		}{}
		try("InitDefaults invalid *nested, cfg {}", M{"d": M{}}, t2)
		t3 := &struct {
			D []Defaults `config:"d"`
		}{}
		try("InitDefaults invalid slice elem", M{"d": []interface{}{M{}}}, t3)
		t4 := &struct {
			D map[string]Defaults `config:"d"`
		}{}
		try("InitDefaults invalid map elem", M{"d": M{"x": M{}}}, t4)
		t5 := &struct {
			D map[string]*Defaults `config:"d"`
		}{}
		try("InitDefaults invalid map *elem d only", M{"d": M{"x": M{"n": 1}}}, t5)
	}
	{
		t := &struct {
			X int `config:"x,ignore" validate:"min=1"`
		}{}
		try("ignore + min", M{}, t)
	}
}
