// required / nonzero accept the empty string if the field has a named string
// type: validateNonEmptyWithAllowNil tests v.(string).
package main

import (
	"fmt"

	ucfg "github.com/elastic/go-ucfg"
)

type mode string

func main() {
	c, _ := ucfg.NewFrom(map[string]interface{}{"m": ""})

	a := &struct {
		M mode `config:"m" validate:"required"`
	}{}
	fmt.Printf("M mode required, m: \"\"   -> err=%v  M=%q\n", c.Unpack(a), a.M)

	b := &struct {
		M mode `config:"m" validate:"nonzero"`
	}{}
	fmt.Printf("M mode nonzero,  m: \"\"   -> err=%v  M=%q\n", c.Unpack(b), b.M)

	d := &struct {
		M mode `config:"m" validate:"required"`
	}{}
	fmt.Printf("M mode required, absent  -> err=%v  M=%q\n", ucfg.New().Unpack(d), d.M)

	e := &struct {
		M string `config:"m" validate:"required"`
	}{}
	fmt.Printf("M string required, m: \"\" -> err=%v\n", c.Unpack(e))
}
