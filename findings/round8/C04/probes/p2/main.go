package main

import (
	"errors"
	"fmt"

	ucfg "github.com/elastic/go-ucfg"
)

type Inner struct {
	N int `config:"n" validate:"min=1"`
}

type InnerReq struct {
	N int `config:"n" validate:"required"`
}

type Level int

func (l *Level) Unpack(s string) error {
	switch s {
	case "low":
		*l = 1
	case "high":
		*l = 10
	default:
		return errors.New("bad level")
	}
	return nil
}

func try(name string, cfgMap map[string]interface{}, to interface{}, opts ...ucfg.Option) {
	c, err := ucfg.NewFrom(cfgMap, opts...)
	if err != nil {
		fmt.Printf("%-40s NewFrom err: %v\n", name, err)
		return
	}
	func() {
		defer func() {
			if r := recover(); r != nil {
				fmt.Printf("%-40s PANIC: %v\n", name, r)
			}
		}()
		err = c.Unpack(to, opts...)
		fmt.Printf("%-40s err=%v  result=%+v\n", name, err, to)
	}()
}

type M = map[string]interface{}

func main() {
	{
		t := &struct {
			L *Level `config:"l" validate:"min=2"`
		}{}
		try("*Level nil min=2 low", M{"l": "low"}, t)
		if t.L != nil {
			fmt.Println("   *L =", *t.L)
		}
		t2 := &struct {
			L *Level `config:"l" validate:"positive"`
		}{}
		try("*Level nil positive", M{"l": "low"}, t2)
	}
	{
		e := ""
		t := &struct {
			S *string `config:"s" validate:"required"`
		}{S: &e}
		try("*string '' prefilled required", M{}, t)
		t2 := &struct {
			S *string `config:"s" validate:"nonzero"`
		}{S: &e}
		try("*string '' prefilled nonzero", M{}, t2)
		z := 0
		t3 := &struct {
			S *int `config:"s" validate:"required"`
		}{S: &z}
		try("*int 0 prefilled required", M{}, t3)
		t4 := &struct {
			S *int `config:"s" validate:"required"`
		}{}
		try("*int 0 cfg required", M{"s": 0}, t4)
		es := []int{}
		t5 := &struct {
			S *[]int `config:"s" validate:"required"`
		}{S: &es}
		try("*[]int empty prefilled required", M{}, t5)
	}
	// references that resolve to null
	{
		t := &struct {
			A interface{} `config:"a"`
			B *Inner      `config:"b" validate:"required"`
		}{}
		try("ref->null *Inner required", M{"a": nil, "b": "${a}"}, t, ucfg.VarExp)
		t2 := &struct {
			A interface{} `config:"a"`
			B *int        `config:"b" validate:"required"`
		}{}
		try("ref->null *int required", M{"a": nil, "b": "${a}"}, t2, ucfg.VarExp)
		t3 := &struct {
			A interface{} `config:"a"`
			B int         `config:"b" validate:"required"`
		}{}
		try("ref->null int required", M{"a": nil, "b": "${a}"}, t3, ucfg.VarExp)
		t4 := &struct {
			A interface{} `config:"a"`
			B string      `config:"b" validate:"required"`
		}{}
		try("ref->null string required", M{"a": nil, "b": "${a}"}, t4, ucfg.VarExp)
		t5 := &struct {
			A interface{} `config:"a"`
			B interface{} `config:"b" validate:"required"`
		}{}
		try("ref->null iface required", M{"a": nil, "b": "${a}"}, t5, ucfg.VarExp)
		t6 := &struct {
			A interface{} `config:"a"`
			B []int       `config:"b" validate:"required"`
		}{}
		try("ref->null []int required", M{"a": nil, "b": "${a}"}, t6, ucfg.VarExp)
		t7 := &struct {
			A interface{}    `config:"a"`
			B map[string]int `config:"b" validate:"required"`
		}{}
		try("ref->null map required", M{"a": nil, "b": "${a}"}, t7, ucfg.VarExp)
		t8 := &struct {
			A interface{} `config:"a"`
			B InnerReq    `config:"b"`
		}{}
		try("ref->null struct w/ required child", M{"a": nil, "b": "${a}"}, t8, ucfg.VarExp)
		t9 := &struct {
			A interface{} `config:"a"`
			B *InnerReq   `config:"b"`
		}{}
		try("ref->null *struct w/ required child", M{"a": nil, "b": "${a}"}, t9, ucfg.VarExp)
		if t9.B != nil {
			fmt.Printf("    B=%+v\n", *t9.B)
		}
	}
	// direct null
	{
		t := &struct {
			B *Inner `config:"b" validate:"required"`
		}{}
		try("null *Inner required", M{"b": nil}, t)
		t2 := &struct {
			B []InnerReq `config:"b"`
		}{}
		try("[]InnerReq with null elem", M{"b": []interface{}{nil}}, t2)
		t3 := &struct {
			B []*InnerReq `config:"b"`
		}{}
		try("[]*InnerReq with null elem", M{"b": []interface{}{nil}}, t3)
		t4 := &struct {
			B map[string]InnerReq `config:"b"`
		}{}
		try("map InnerReq with null elem", M{"b": M{"x": nil}}, t4)
		t5 := &struct {
			B map[string]*InnerReq `config:"b"`
		}{}
		try("map *InnerReq with null elem", M{"b": M{"x": nil}}, t5)
	}
}
