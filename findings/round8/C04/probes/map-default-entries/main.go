// Entries of a pre-filled map are validated only if the configuration has no
// entry at all for the map; as soon as it names another key they are skipped.
package main

import (
	"fmt"

	ucfg "github.com/elastic/go-ucfg"
)

type inner struct {
	N int `config:"n" validate:"min=1"`
}

type target struct {
	M map[string]*inner `config:"m"`
}

func main() {
	other, _ := ucfg.NewFrom(map[string]interface{}{
		"m": map[string]interface{}{"b": map[string]interface{}{"n": 3}},
	})
	t := target{M: map[string]*inner{"a": {N: 0}}}
	err := other.Unpack(&t)
	fmt.Printf("config names another key: err=%v  m.a.n=%d (min=1)\n", err, t.M["a"].N)

	t = target{M: map[string]*inner{"a": {N: 0}}}
	err = ucfg.New().Unpack(&t)
	fmt.Printf("config is empty:          err=%v\n", err)

	// top level map, same thing
	m := map[string]inner{"a": {N: 0}}
	top, _ := ucfg.NewFrom(map[string]interface{}{"b": map[string]interface{}{"n": 2}})
	err = top.Unpack(&m)
	fmt.Printf("top-level map:            err=%v  a.n=%d (min=1)\n", err, m["a"].N)
}
