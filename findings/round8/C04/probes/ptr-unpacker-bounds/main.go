// A nil pointer field whose element type unpacks itself (pointer receiver):
// reifyPrimitive hands the *pointer* to min/max/positive, which ignore it.
package main

import (
	"errors"
	"fmt"

	ucfg "github.com/elastic/go-ucfg"
)

type level int

func (l *level) Unpack(s string) error {
	switch s {
	case "low":
		*l = 1
	case "high":
		*l = 10
	default:
		return errors.New("bad level")
	}
	return nil
}

func main() {
	c, _ := ucfg.NewFrom(map[string]interface{}{"l": "low"})

	p := &struct {
		L *level `config:"l" validate:"min=2"`
	}{}
	err := c.Unpack(p)
	fmt.Printf("L *level min=2, l: low -> err=%v", err)
	if p.L != nil {
		fmt.Printf("  *L=%d", *p.L)
	}
	fmt.Println()

	v := &struct {
		L level `config:"l" validate:"min=2"`
	}{}
	fmt.Printf("L level  min=2, l: low -> err=%v\n", c.Unpack(v))
}
