// Validate() of a pre-filled value is not called if the value is held by an
// interface{} field / list entry / map entry, or by a pointer to a pointer, and
// the configuration does not mention it (tryValidate looks at the static type).
package main

import (
	"errors"
	"fmt"

	ucfg "github.com/elastic/go-ucfg"
)

type checked struct {
	N int `config:"n"`
}

func (c *checked) Validate() error {
	if c.N == 0 {
		return errors.New("checked.N must not be 0")
	}
	return nil
}

func main() {
	c := ucfg.New()

	t1 := &struct {
		I interface{} `config:"i"`
	}{I: &checked{}}
	fmt.Printf("interface{} holding *checked: err=%v\n", c.Unpack(t1))

	t2 := &struct {
		I []interface{} `config:"i"`
	}{I: []interface{}{&checked{}}}
	fmt.Printf("[]interface{} holding *checked: err=%v\n", c.Unpack(t2))

	p := &checked{}
	t3 := &struct {
		I **checked `config:"i"`
	}{I: &p}
	fmt.Printf("**checked: err=%v\n", c.Unpack(t3))

	t4 := &struct {
		I *checked `config:"i"`
	}{I: &checked{}}
	fmt.Printf("*checked (for comparison): err=%v\n", c.Unpack(t4))
}
