package main

import (
	"fmt"

	ucfg "github.com/elastic/go-ucfg"
)

type M = map[string]interface{}

func try(name string, cfgMap interface{}, to interface{}, opts ...ucfg.Option) {
	c, err := ucfg.NewFrom(cfgMap, opts...)
	if err != nil {
		fmt.Printf("%-40s NewFrom err: %v\n", name, err)
		return
	}
	err = c.Unpack(to, opts...)
	fmt.Printf("%-40s err=%v  result=%+v\n", name, err, to)
}

func main() {
	t := &struct {
		Name  string   `config:"name"`
		Hosts []string `config:",inline"`
	}{Hosts: []string{"localhost"}}
	try("inline slice default, no list, default", M{"name": "x"}, t)
	t = &struct {
		Name  string   `config:"name"`
		Hosts []string `config:",inline"`
	}{Hosts: []string{"localhost"}}
	try("inline slice default, no list, replace", M{"name": "x"}, t, ucfg.ReplaceValues)
	t2 := &struct {
		Name  string   `config:"name"`
		Hosts []string `config:",inline,replace"`
	}{Hosts: []string{"localhost"}}
	try("inline slice default, no list, replace tag", M{"name": "x"}, t2)
	t3 := &struct {
		Name string `config:"name"`
		RGB  [3]int `config:",inline"`
	}{RGB: [3]int{1, 2, 3}}
	try("inline array default, no list", M{"name": "x"}, t3)
	t4 := &struct {
		Name  string   `config:"name"`
		Hosts []string `config:"hosts,replace"`
	}{Hosts: []string{"localhost"}}
	try("named slice default, absent, replace tag", M{"name": "x"}, t4)
}
