// Pre-filled pointer fields that the configuration does not mention: min, max,
// positive and required look at the pointer, not at the value it leads to.
package main

import (
	"fmt"
	"time"

	ucfg "github.com/elastic/go-ucfg"
)

func main() {
	c := ucfg.New() // nothing configured: the defaults stay

	one, neg, empty, zero, d := 1, -1, "", 0, time.Second
	t := &struct {
		A *int           `config:"a" validate:"min=5"`
		B *int           `config:"b" validate:"max=0"`
		C *int           `config:"c" validate:"positive"`
		D *time.Duration `config:"d" validate:"min=5s"`
		E *string        `config:"e" validate:"required"`
		F *string        `config:"f" validate:"nonzero"`
		G *int           `config:"g" validate:"required"`
	}{A: &one, B: &one, C: &neg, D: &d, E: &empty, F: &empty, G: &zero}

	err := c.Unpack(t)
	fmt.Printf("err=%v  *A=%d(min=5) *B=%d(max=0) *C=%d(positive) *D=%v(min=5s) *E=%q(required) *F=%q(nonzero) *G=%d(required)\n",
		err, *t.A, *t.B, *t.C, *t.D, *t.E, *t.F, *t.G)

	// the same values written in the configuration are rejected
	c2, _ := ucfg.NewFrom(map[string]interface{}{"a": 1})
	t2 := &struct {
		A *int `config:"a" validate:"min=5"`
	}{}
	fmt.Println("from the configuration:", c2.Unpack(t2))
}
