package main

import (
	"errors"
	"fmt"
	"time"

	ucfg "github.com/elastic/go-ucfg"
)

type Inner struct {
	N int `config:"n" validate:"min=1"`
}

type InnerV struct {
	N int `config:"n"`
}

func (i *InnerV) Validate() error {
	if i.N == 0 {
		return errors.New("InnerV.N must not be 0")
	}
	return nil
}

type Level int

func (l *Level) Unpack(s string) error {
	switch s {
	case "low":
		*l = 1
	case "high":
		*l = 10
	default:
		return errors.New("bad level")
	}
	return nil
}

func try(name string, cfgMap map[string]interface{}, to interface{}, opts ...ucfg.Option) {
	c, err := ucfg.NewFrom(cfgMap, opts...)
	if err != nil {
		fmt.Printf("%-40s NewFrom err: %v\n", name, err)
		return
	}
	func() {
		defer func() {
			if r := recover(); r != nil {
				fmt.Printf("%-40s PANIC: %v\n", name, r)
			}
		}()
		err = c.Unpack(to, opts...)
		fmt.Printf("%-40s err=%v  result=%+v\n", name, err, to)
	}()
}

func main() {
	// 1. pre-filled *int with min, absent from config
	{
		one := 1
		t := &struct {
			P *int `config:"p" validate:"min=5"`
		}{P: &one}
		try("ptr-int default min=5", map[string]interface{}{}, t)
		fmt.Println("   *P =", *t.P)
	}
	{
		neg := -1
		t := &struct {
			P *int `config:"p" validate:"positive"`
		}{P: &neg}
		try("ptr-int default positive", map[string]interface{}{}, t)
	}
	{
		d := time.Second
		t := &struct {
			P *time.Duration `config:"p" validate:"min=5s"`
		}{P: &d}
		try("ptr-dur default min=5s", map[string]interface{}{}, t)
	}
	{
		d := time.Duration(0)
		t := &struct {
			P *time.Duration `config:"p" validate:"nonzero"`
		}{P: &d}
		try("ptr-dur default nonzero", map[string]interface{}{}, t)
	}
	// 2. pre-filled map entries absent from config
	{
		t := &struct {
			M map[string]*Inner `config:"m"`
		}{M: map[string]*Inner{"a": {N: 0}}}
		try("map default entry, other key in cfg", map[string]interface{}{"m": map[string]interface{}{"b": map[string]interface{}{"n": 3}}}, t)
		try("map default entry, empty cfg", map[string]interface{}{}, t)
	}
	// 3. inline map with validator
	{
		t := &struct {
			M map[string]int `config:",inline" validate:"nonzero"`
		}{}
		try("inline map nonzero, empty", map[string]interface{}{}, t)
		t2 := &struct {
			M map[string]int `config:"m" validate:"nonzero"`
		}{}
		try("plain map nonzero, empty", map[string]interface{}{"m": map[string]interface{}{}}, t2)
	}
	// 4. interface field pre-filled with *InnerV whose Validate fails
	{
		t := &struct {
			I interface{} `config:"i"`
		}{I: &InnerV{}}
		try("iface default *InnerV invalid", map[string]interface{}{}, t)
		t2 := &struct {
			I *InnerV `config:"i"`
		}{I: &InnerV{}}
		try("ptr default *InnerV invalid", map[string]interface{}{}, t2)
		t3 := &struct {
			I []interface{} `config:"i"`
		}{I: []interface{}{&InnerV{}}}
		try("[]iface default *InnerV invalid", map[string]interface{}{}, t3)
		p := &InnerV{}
		t4 := &struct {
			I **InnerV `config:"i"`
		}{I: &p}
		try("**InnerV default invalid", map[string]interface{}{}, t4)
	}
	// 5. Unpacker primitive with min
	{
		t := &struct {
			L Level `config:"l" validate:"min=2"`
		}{}
		try("unpacker Level min=2 low", map[string]interface{}{"l": "low"}, t)
		t2 := &struct {
			L Level `config:"l" validate:"max=2"`
		}{}
		try("unpacker Level max=2 high", map[string]interface{}{"l": "high"}, t2)
		t3 := &struct {
			L Level `config:"l" validate:"min=2"`
		}{L: 1}
		try("unpacker Level min=2 prefilled", map[string]interface{}{}, t3)
	}
}
