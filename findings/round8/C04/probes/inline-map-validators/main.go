// The validate tag of an inlined map (or struct) field is never run; the same
// tag on a named map field is.
package main

import (
	"fmt"

	ucfg "github.com/elastic/go-ucfg"
)

func main() {
	inl := &struct {
		M map[string]int `config:",inline" validate:"nonzero"`
	}{}
	err := ucfg.New().Unpack(inl)
	fmt.Printf("inline map, nonzero, empty config:  err=%v  M=%v\n", err, inl.M)

	inl2 := &struct {
		M map[string]int `config:",inline" validate:"required"`
	}{}
	err = ucfg.New().Unpack(inl2)
	fmt.Printf("inline map, required, empty config: err=%v  M=%v\n", err, inl2.M)

	named := &struct {
		M map[string]int `config:"m" validate:"nonzero"`
	}{}
	c, _ := ucfg.NewFrom(map[string]interface{}{"m": map[string]interface{}{}})
	err = c.Unpack(named)
	fmt.Printf("named map, nonzero, m: {}:          err=%v\n", err)
}
