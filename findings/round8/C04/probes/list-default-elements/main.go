// The validate tag of a list field is applied to every element that comes from
// the configuration, but not to pre-filled elements that stay in the result.
package main

import (
	"fmt"

	ucfg "github.com/elastic/go-ucfg"
)

type target struct {
	A []int `config:"a" validate:"min=1"`
}

func main() {
	c, _ := ucfg.NewFrom(map[string]interface{}{"a": []interface{}{0, 5}})
	var t target
	fmt.Printf("a: [0, 5]                      -> err=%v\n", c.Unpack(&t))

	c, _ = ucfg.NewFrom(map[string]interface{}{"a": []interface{}{5}})
	t = target{A: []int{0, 0}}
	fmt.Printf("a: [5] over default [0, 0]     -> err=%v  A=%v\n", c.Unpack(&t), t.A)

	t = target{A: []int{0, 0}}
	fmt.Printf("nothing over default [0, 0]    -> err=%v  A=%v\n", ucfg.New().Unpack(&t), t.A)
}
