package main

import (
	"fmt"
	"time"

	ucfg "github.com/elastic/go-ucfg"
)

type Mode string
type Secs time.Duration

func try(name string, cfgMap map[string]interface{}, to interface{}, opts ...ucfg.Option) {
	c, err := ucfg.NewFrom(cfgMap, opts...)
	if err != nil {
		fmt.Printf("%-40s NewFrom err: %v\n", name, err)
		return
	}
	func() {
		defer func() {
			if r := recover(); r != nil {
				fmt.Printf("%-40s PANIC: %v\n", name, r)
			}
		}()
		err = c.Unpack(to, opts...)
		fmt.Printf("%-40s err=%v  result=%+v\n", name, err, to)
	}()
}

type M = map[string]interface{}

func main() {
	{
		t := &struct {
			M Mode `config:"m" validate:"required"`
		}{}
		try("named string required ''", M{"m": ""}, t)
		t2 := &struct {
			M Mode `config:"m" validate:"nonzero"`
		}{}
		try("named string nonzero ''", M{"m": ""}, t2)
		t3 := &struct {
			M Mode `config:"m" validate:"required"`
		}{}
		try("named string required absent", M{}, t3)
		t4 := &struct {
			M Secs `config:"m" validate:"min=1"`
		}{}
		try("named dur min=1 cfg 0", M{"m": 0}, t4)
	}
	{
		t := &struct {
			A []int `config:"a" validate:"min=1"`
		}{}
		try("[]int min=1 cfg [0,5]", M{"a": []interface{}{0, 5}}, t)
		t2 := &struct {
			A []int `config:"a" validate:"min=1"`
		}{A: []int{0, 0}}
		try("[]int min=1 prefilled [0,0] cfg [5]", M{"a": []interface{}{5}}, t2)
		t3 := &struct {
			A []int `config:"a" validate:"min=1"`
		}{A: []int{0, 0}}
		try("[]int min=1 prefilled [0,0] absent", M{}, t3)
		t4 := &struct {
			A []string `config:"a" validate:"required"`
		}{}
		try("[]string required cfg ['', a]", M{"a": []interface{}{"", "a"}}, t4)
		t5 := &struct {
			A map[string]int `config:"a" validate:"min=1"`
		}{}
		try("map int min=1 cfg {x:0}", M{"a": M{"x": 0}}, t5)
		t6 := &struct {
			A [2]int `config:"a" validate:"min=1"`
		}{}
		try("[2]int min=1 cfg [0,5]", M{"a": []interface{}{0, 5}}, t6)
		t7 := &struct {
			A []time.Duration `config:"a" validate:"min=1s"`
		}{}
		try("[]dur min=1s cfg [0,5]", M{"a": []interface{}{0, 5}}, t7)
		t8 := &struct {
			A [][]int `config:"a" validate:"min=1"`
		}{}
		try("[][]int min=1 cfg [[0]]", M{"a": []interface{}{[]interface{}{0}}}, t8)
		t9 := &struct {
			A []int `config:"a" validate:"min=1"`
		}{}
		try("[]int min=1 cfg scalar 0", M{"a": 0}, t9)
		t10 := &struct {
			A []interface{} `config:"a" validate:"min=1"`
		}{}
		try("[]iface min=1 cfg [0]", M{"a": []interface{}{0}}, t10)
	}
}
