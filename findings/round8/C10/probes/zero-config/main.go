// The zero value of the exported type Config panics in Merge (as destination,
// as source, and embedded in a map).
package main

import (
	"fmt"

	ucfg "github.com/elastic/go-ucfg"
)

func try(name string, f func() error) {
	defer func() {
		if r := recover(); r != nil {
			fmt.Printf("%s: PANIC %v\n", name, r)
		}
	}()
	fmt.Printf("%s: %v\n", name, f())
}

func main() {
	try("zero value as source", func() error { var z ucfg.Config; return ucfg.New().Merge(&z) })
	try("zero value embedded", func() error {
		var z ucfg.Config
		return ucfg.New().Merge(map[string]interface{}{"a": &z})
	})
	try("zero value as destination", func() error {
		var z ucfg.Config
		return z.Merge(map[string]interface{}{"a": 1})
	})
}
