package main

import (
	"fmt"

	ucfg "github.com/elastic/go-ucfg"
	"hunt/fp"
)

type M = map[string]interface{}

func try(name string, f func()) {
	defer func() {
		if r := recover(); r != nil {
			fmt.Printf("%s: PANIC %v\n", name, r)
		}
	}()
	f()
}

func main() {
	sep := ucfg.PathSep(".")
	// 1. source is a child of the destination, colliding key
	try("alias-child", func() {
		c := ucfg.MustNewFrom(M{"a": M{"a": M{"x": 1}, "y": 2}})
		child, _ := c.Child("a", -1)
		before := fp.Dump(child)
		err := c.Merge(child)
		after := fp.Dump(child)
		fmt.Println("alias-child err:", err, "changed:", before != after)
		if before != after {
			fmt.Print(before, "---\n", after)
		}
	})
	// 2. Env config written through by Merge (mergeValues with dynamic old)
	try("env-merge", func() {
		env := ucfg.MustNewFrom(M{"other": M{"x": 1}})
		dst := ucfg.MustNewFrom(M{"a": "${other}"}, ucfg.VarExp)
		src := ucfg.MustNewFrom(M{"a": M{"y": 2}})
		bEnv, bSrc := fp.Dump(env), fp.Dump(src)
		err := dst.Merge(src, ucfg.VarExp, ucfg.Env(env))
		fmt.Println("env-merge err:", err, "env changed:", bEnv != fp.Dump(env), "src changed:", bSrc != fp.Dump(src))
		if bEnv != fp.Dump(env) {
			fmt.Print(bEnv, "---\n", fp.Dump(env))
		}
	})
	// 2b. the source itself used as environment
	try("env-is-src", func() {
		src := ucfg.MustNewFrom(M{"a": M{"y": 2}, "other": M{"x": 1}})
		dst := ucfg.MustNewFrom(M{"a": "${other}"}, ucfg.VarExp)
		bSrc := fp.Dump(src)
		err := dst.Merge(M{"a": M{"y": 2}}, ucfg.VarExp, ucfg.Env(src))
		fmt.Println("env-is-src err:", err, "src(env) changed:", bSrc != fp.Dump(src))
	})
	// 3. normalize with overlapping keys writing through a reference into Env
	try("env-normalize", func() {
		env := ucfg.MustNewFrom(M{"other": M{"b": M{"x": 1}}})
		bEnv := fp.Dump(env)
		dst := ucfg.New()
		err := dst.Merge(M{"a": "${other}", "a.b.c": 5}, sep, ucfg.VarExp, ucfg.Env(env))
		fmt.Println("env-normalize err:", err, "env changed:", bEnv != fp.Dump(env))
		if bEnv != fp.Dump(env) {
			fmt.Print(bEnv, "---\n", fp.Dump(env))
		}
		err = dst.Merge(M{"a": "${other}", "a.b": M{"c": 6}}, sep, ucfg.VarExp, ucfg.Env(env))
		fmt.Println("env-normalize2 err:", err, "env changed:", bEnv != fp.Dump(env))
	})
	// 3b. the same with an embedded *Config as the reference target inside the from value
	try("normalize-ref-into-embedded", func() {
		src := ucfg.MustNewFrom(M{"b": M{"x": 1}})
		b := fp.Dump(src)
		dst := ucfg.New()
		err := dst.Merge(M{"a": "${other}", "a.b.c": 5, "other": src}, sep, ucfg.VarExp)
		fmt.Println("normalize-ref-into-embedded err:", err, "src changed:", b != fp.Dump(src))
		fmt.Print(fp.Dump(dst))
	})
	// 4. zero value Config
	try("zero-direct", func() {
		var z ucfg.Config
		fmt.Println("zero-direct:", ucfg.New().Merge(&z))
	})
	try("zero-embedded", func() {
		var z ucfg.Config
		fmt.Println("zero-embedded:", ucfg.New().Merge(M{"a": &z}))
	})
	try("zero-dest", func() {
		var z ucfg.Config
		fmt.Println("zero-dest:", z.Merge(M{"a": 1}))
	})
	// 5. inline *Config in Merge
	try("inline", func() {
		type S struct {
			C *ucfg.Config `config:",inline"`
			X int
		}
		src := ucfg.MustNewFrom(M{"k": 1})
		dst := ucfg.New()
		err := dst.Merge(S{C: src, X: 2})
		var out M
		dst.Unpack(&out)
		fmt.Println("inline err:", err, "dst:", out)
		type S2 struct {
			C ucfg.Config `config:",inline"`
		}
		dst = ucfg.New()
		err = dst.Merge(S2{C: *src})
		out = nil
		dst.Unpack(&out)
		fmt.Println("inline-value err:", err, "dst:", out)
	})
	// 6. named config type
	try("named", func() {
		type My ucfg.Config
		src := ucfg.MustNewFrom(M{"k": M{"z": 1}})
		b := fp.Dump(src)
		dst := ucfg.New()
		err := dst.Merge(M{"a": (*My)(src), "b": My(*src)})
		fmt.Println("named err:", err)
		dst.SetString("a.k.z", -1, "X", sep)
		dst.SetString("b.k.z", -1, "X", sep)
		fmt.Println("named src changed:", b != fp.Dump(src))
		dst = ucfg.New()
		err = dst.Merge((*My)(src))
		dst.SetString("k.z", -1, "X", sep)
		fmt.Println("named-direct err:", err, "src changed:", b != fp.Dump(src))
		var my My = My(*src)
		dst = ucfg.New()
		err = dst.Merge(my)
		dst.SetString("k.z", -1, "X", sep)
		fmt.Println("named-direct-value err:", err, "src changed:", b != fp.Dump(src))
	})
}
