package main

import (
	"fmt"

	ucfg "github.com/elastic/go-ucfg"
	"hunt/fp"
)

type M = map[string]interface{}

func try(name string, f func()) {
	defer func() {
		if r := recover(); r != nil {
			fmt.Printf("%s: PANIC %v\n", name, r)
		}
	}()
	f()
}

func main() {
	sep := ucfg.PathSep(".")
	// reference in the destination: merging into it writes into the reference's target (dest internal)
	try("dest-ref", func() {
		dst := ucfg.MustNewFrom(M{"a": "${b}", "b": M{"x": 1}}, ucfg.VarExp)
		src := ucfg.MustNewFrom(M{"a": M{"y": 2}})
		b := fp.Dump(src)
		err := dst.Merge(src)
		var out M
		dst.Unpack(&out)
		fmt.Println("dest-ref err:", err, "src changed:", b != fp.Dump(src), "dst:", out)
	})
	// Unpack into a Config target = merge from a config
	try("unpack-into-config", func() {
		src := ucfg.MustNewFrom(M{"a": M{"x": 1, "l": []int{1, 2}}, "r": "${a.x}"}, sep, ucfg.VarExp)
		b := fp.Dump(src)
		dst := ucfg.MustNewFrom(M{"a": M{"y": 1}})
		err := src.Unpack(dst)
		fmt.Println("unpack-into-config err:", err, "src changed:", b != fp.Dump(src))
		dst.SetString("a.x", -1, "X", sep)
		dst.SetString("a.l.0", -1, "X", sep)
		dst.Remove("a.l", 0, sep)
		fmt.Println("  after writes on dst, src changed:", b != fp.Dump(src))

		type T struct {
			A *ucfg.Config
		}
		pre := ucfg.MustNewFrom(M{"y": 1})
		t := T{A: pre}
		err = src.Unpack(&t)
		fmt.Println("unpack-prefilled err:", err, "same ptr:", t.A == pre, "src changed:", b != fp.Dump(src))
		t.A.SetString("x", -1, "X")
		t.A.Remove("l", 0)
		fmt.Println("  after writes on target, src changed:", b != fp.Dump(src))
		fmt.Println("  target path/parent:", t.A.Path("."), t.A.Parent())
	})
	// merge twice from the same source, with different policies, then write on the first dst
	try("twice", func() {
		src := ucfg.MustNewFrom(M{"a": M{"l": []interface{}{M{"x": 1}}}})
		d1, d2 := ucfg.New(), ucfg.New()
		d1.Merge(src, ucfg.AppendValues)
		d2.Merge(d1, ucfg.PrependValues)
		d2.Merge(src, ucfg.PrependValues)
		b1, bs := fp.Dump(d1), fp.Dump(src)
		d2.SetString("a.l.0.x", -1, "X", sep)
		d2.Remove("a.l", 1, sep)
		fmt.Println("twice: d1 changed:", b1 != fp.Dump(d1), "src changed:", bs != fp.Dump(src))
	})
	// source is a sub-config (non-root) with references to its own root
	try("sub-source", func() {
		root := ucfg.MustNewFrom(M{"name": "n", "sub": M{"v": "${name}", "deep": M{"w": "${sub.v}"}}}, sep, ucfg.VarExp)
		sub, _ := root.Child("sub", -1)
		b := fp.Dump(root)
		dst := ucfg.MustNewFrom(M{"name": "other", "deep": M{"q": 1}})
		err := dst.Merge(sub)
		fmt.Println("sub-source err:", err, "root changed:", b != fp.Dump(root), "sub path:", sub.Path("."), "parent ok:", sub.Parent() == root)
		dd, _ := dst.Child("deep", -1)
		fmt.Println("  dst.deep path:", dd.Path("."), "parent ok:", dd.Parent() == dst)
		dst2 := ucfg.New()
		err = dst2.Merge(M{"k": []interface{}{sub}, "m": M{"n": sub}})
		fmt.Println("sub-source embedded err:", err, "root changed:", b != fp.Dump(root))
	})
	// SetChild with a node of the source after a merge (hand-over by design)
	try("setchild-after", func() {
		src := ucfg.MustNewFrom(M{"a": M{"x": 1}})
		dst := ucfg.New()
		dst.Merge(src)
		child, _ := src.Child("a", -1)
		dst.SetChild("b", -1, child)
		fmt.Println("setchild-after: src.a path:", child.Path("."), "parent is src:", child.Parent() == src)
	})
}
