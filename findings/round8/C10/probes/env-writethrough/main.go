// A configuration passed to Merge with the Env option is only a lookup
// environment, yet Merge writes into it: when the destination holds a
// reference that resolves (through Env) to a sub-configuration, the merge
// target is the LIVE sub-configuration of the Env config.
package main

import (
	"fmt"

	ucfg "github.com/elastic/go-ucfg"
)

type M = map[string]interface{}

func show(c *ucfg.Config) M {
	var m M
	c.Unpack(&m)
	return m
}

func main() {
	// (1) mergeValues: old value is a reference, resolved with opts.env
	env := ucfg.MustNewFrom(M{"other": M{"x": 1}})
	dst := ucfg.MustNewFrom(M{"a": "${other}"}, ucfg.VarExp)
	src := ucfg.MustNewFrom(M{"a": M{"y": 2}})
	fmt.Println("env before:", show(env))
	err := dst.Merge(src, ucfg.VarExp, ucfg.Env(env))
	fmt.Println("merge err :", err)
	fmt.Println("env after :", show(env), " <- 'y' was merged into the Env config")

	// (2) normalizeSetField: overlapping keys, the shorter one is a reference
	env = ucfg.MustNewFrom(M{"other": M{"b": M{"x": 1}}})
	fmt.Println("env before:", show(env))
	err = ucfg.New().Merge(M{"a": "${other}", "a.b": M{"c": 6}}, ucfg.PathSep("."), ucfg.VarExp, ucfg.Env(env))
	fmt.Println("merge err :", err)
	fmt.Println("env after :", show(env), " <- 'c' was merged into the Env config")

	// (3) the same mechanism inside one configuration (no Env): merging into
	// key 'a' changes the unrelated key 'b' of the destination
	dst = ucfg.MustNewFrom(M{"a": "${b}", "b": M{"x": 1}}, ucfg.VarExp)
	err = dst.Merge(M{"a": M{"y": 2}})
	fmt.Println("dest-internal:", err, show(dst))
}
