// The source is a sub-configuration of the destination (obtained with Child)
// and holds a key with the name it is stored under: the merge then writes into
// the source.
package main

import (
	"fmt"

	ucfg "github.com/elastic/go-ucfg"
)

type M = map[string]interface{}

func main() {
	c := ucfg.MustNewFrom(M{"a": M{"a": M{"x": 1}, "y": 2}})
	child, _ := c.Child("a", -1)
	var before, after M
	child.Unpack(&before)
	err := c.Merge(child)
	child.Unpack(&after)
	fmt.Println("err:", err)
	fmt.Println("source before:", before)
	fmt.Println("source after :", after)
}
