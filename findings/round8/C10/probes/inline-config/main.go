// Merge documents `config:",inline"` for fields of type *Config; the field is
// silently dropped (normalizeStructInto walks the unexported fields of Config).
// Inlined slices/arrays, also documented, are rejected.
package main

import (
	"fmt"

	ucfg "github.com/elastic/go-ucfg"
)

func main() {
	type S struct {
		C *ucfg.Config `config:",inline"`
		X int
	}
	src := ucfg.MustNewFrom(map[string]interface{}{"k": 1})
	dst := ucfg.New()
	err := dst.Merge(S{C: src, X: 2})
	var out map[string]interface{}
	dst.Unpack(&out)
	fmt.Println("inline *Config: err:", err, "dst:", out, "(k is missing)")

	type L struct {
		L []int `config:",inline"`
	}
	err = ucfg.New().Merge(L{L: []int{1, 2}})
	fmt.Printf("inline slice: err: %.90v\n", err)
}
