package main

import (
	"fmt"

	ucfg "github.com/elastic/go-ucfg"
	"hunt/fp"
)

func check(name string, src *ucfg.Config, do func()) {
	defer func() {
		if r := recover(); r != nil {
			fmt.Printf("%-40s PANIC %v\n", name, r)
		}
	}()
	before := fp.Dump(src)
	do()
	after := fp.Dump(src)
	if before != after {
		fmt.Printf("%-40s SOURCE CHANGED\n--- before\n%s--- after\n%s", name, before, after)
	} else {
		fmt.Printf("%-40s ok\n", name)
	}
}

func mk(v interface{}, o ...ucfg.Option) *ucfg.Config {
	return ucfg.MustNewFrom(v, o...)
}

type M = map[string]interface{}

func main() {
	allOpts := map[string][]ucfg.Option{
		"default": nil,
		"replace": {ucfg.ReplaceValues},
		"append":  {ucfg.AppendValues},
		"prepend": {ucfg.PrependValues},
		"replarr": {ucfg.ReplaceArrValues},
		"pathsep": {ucfg.PathSep(".")},
		"varexp":  {ucfg.PathSep("."), ucfg.VarExp},
		"fieldappend": {ucfg.PathSep("."), ucfg.FieldAppendValues("a.l"), ucfg.FieldReplaceValues("a.d")},
	}
	for on, o := range allOpts {
		newSrc := func() *ucfg.Config {
			return mk(M{
				"a": M{"l": []interface{}{1, M{"x": 1}, []int{1, 2}}, "d": M{"k": "v"}, "ref": "${a.d.k}", "n": nil},
				"b": []interface{}{M{"q": 1}, 2},
				"c": "${b.0.q}-x",
			}, ucfg.PathSep("."), ucfg.VarExp)
		}
		// direct
		{
			src := newSrc()
			dst := mk(M{"a": M{"l": []interface{}{0, M{"y": 2}}, "d": M{"z": 1}}, "b": []int{9, 9, 9}})
			check(on+"/direct", src, func() {
				if err := dst.Merge(src, o...); err != nil {
					fmt.Println("err", err)
				}
			})
			snap := fp.Dump(src)
			dst.SetString("a.d.k", -1, "CHANGED", ucfg.PathSep("."))
			dst.SetString("a.l.1.x", -1, "CHANGED", ucfg.PathSep("."))
			dst.SetString("b.0.q", -1, "CHANGED", ucfg.PathSep("."))
			dst.Remove("a.ref", -1, ucfg.PathSep("."))
			dst.Remove("a.l", 0, ucfg.PathSep("."))
			dst.Remove("b", 0, ucfg.PathSep("."))
			dst.Merge(M{"a": M{"l": []interface{}{7, M{"x": 7}, []int{7, 7, 7}}, "d": M{"k": 7}}})
			if fp.Dump(src) != snap {
				fmt.Println(on, "direct: write on dst visible in src")
			}
			dsnap := fp.Dump(dst)
			src.SetString("a.d.k", -1, "SRC", ucfg.PathSep("."))
			src.SetString("a.l.1.x", -1, "SRC", ucfg.PathSep("."))
			src.SetString("a.l.2.0", -1, "SRC", ucfg.PathSep("."))
			src.SetString("b.0.q", -1, "SRC", ucfg.PathSep("."))
			src.Remove("a.l", 0, ucfg.PathSep("."))
			src.Remove("b", -1)
			src.Merge(M{"a": M{"l": []interface{}{8, M{"x": 8}, []int{8, 8, 8}}, "d": M{"k": 8}}})
			if fp.Dump(dst) != dsnap {
				fmt.Println(on, "direct: write on src visible in dst")
			}
		}
		// embedded in map / slice / struct
		type S struct {
			P  *ucfg.Config
			V  ucfg.Config
			I  interface{}
			L  []*ucfg.Config
			M  map[string]*ucfg.Config
			PP **ucfg.Config
		}
		{
			src := newSrc()
			psrc := src
			froms := map[string]interface{}{
				"map":      M{"a": src, "s": M{"deep": []interface{}{src, &src}}},
				"slice":    []interface{}{src, []*ucfg.Config{src}},
				"struct":   S{P: src, V: *src, I: src, L: []*ucfg.Config{src, src}, M: map[string]*ucfg.Config{"k": src}, PP: &psrc},
				"ptrstruct": &S{P: src, V: *src, I: *src, L: []*ucfg.Config{src, src}, M: map[string]*ucfg.Config{"k": src}, PP: &psrc},
				"value":    *src,
			}
			for fn, from := range froms {
				dst := mk(M{"a": M{"a": M{"l": []int{5}}}, "p": M{"a": M{"l": []int{5}, "d": 1}}, "i": M{"b": 1}})
				check(on+"/"+fn, src, func() {
					if err := dst.Merge(from, o...); err != nil {
						fmt.Println("err", err)
					}
				})
				snap := fp.Dump(src)
				for _, k := range fp.Keys(dst) {
					dst.SetString(k, -1, "X", ucfg.PathSep("."))
				}
				if fp.Dump(src) != snap {
					fmt.Println(on, fn, ": write on dst visible in src")
				}
			}
		}
	}
}
