package main

import (
	"fmt"

	ucfg "github.com/elastic/go-ucfg"
)

type M = map[string]interface{}
type L = []interface{}

func dump(c *ucfg.Config, opts ...ucfg.Option) string {
	m := map[string]interface{}{}
	if err := c.Unpack(&m, opts...); err != nil {
		return "ERR " + err.Error()
	}
	return fmt.Sprintf("%v", m)
}

func main() {
	src := ucfg.MustNewFrom(M{"c": M{"l": L{3}}, "s": L{3}})
	for _, o := range [][]ucfg.Option{nil, {ucfg.ReplaceValues}, {ucfg.AppendValues}, {ucfg.PrependValues}} {
		var t struct {
			C *ucfg.Config
			S []int
		}
		t.C = ucfg.MustNewFrom(M{"l": L{1, 2}})
		t.S = []int{1, 2}
		err := src.Unpack(&t, o...)
		fmt.Println(err, dump(t.C), t.S)

		// top-level *Config target
		c := ucfg.MustNewFrom(M{"c": M{"l": L{1, 2}}})
		err = src.Unpack(c, o...)
		fmt.Println("  into *Config:", err, dump(c))
	}
}
