package main

import (
	"fmt"

	ucfg "github.com/elastic/go-ucfg"
)

type M = map[string]interface{}
type L = []interface{}

func dump(c *ucfg.Config, opts ...ucfg.Option) string {
	m := M{}
	if err := c.Unpack(&m, opts...); err != nil {
		return "ERR " + err.Error()
	}
	return fmt.Sprintf("%v", m)
}

func try(name string, f func()) {
	defer func() {
		if r := recover(); r != nil {
			fmt.Printf("%s: PANIC %v\n", name, r)
		}
	}()
	f()
}

func main() {
	try("struct source with a Config field left at its zero value", func() {
		type S struct {
			Sub ucfg.Config
			X   int
		}
		a := ucfg.New()
		fmt.Println(a.Merge(S{X: 1}), dump(a))
	})
	try("zero Config as source", func() {
		a := ucfg.New()
		fmt.Println(a.Merge(ucfg.Config{}), dump(a))
	})
	try("nil *Config field (for comparison)", func() {
		type S struct {
			Sub *ucfg.Config
			X   int
		}
		a := ucfg.New()
		fmt.Println(a.Merge(S{X: 1}), dump(a))
	})
}
