// Differential probe: random trees A, B (and C), five global policies, source
// as map or *Config; the library's Merge + Unpack is compared with a model
// written directly from the property statement.
package main

import (
	"fmt"
	"math/rand"
	"os"
	"reflect"
	"sort"

	ucfg "github.com/elastic/go-ucfg"
)

type policy int

const (
	pDefault policy = iota
	pReplace
	pReplaceArr
	pAppend
	pPrepend
)

var polNames = []string{"default", "ReplaceValues", "ReplaceArrValues", "AppendValues", "PrependValues"}

func polOpts(p policy) []ucfg.Option {
	switch p {
	case pReplace:
		return []ucfg.Option{ucfg.ReplaceValues}
	case pReplaceArr:
		return []ucfg.Option{ucfg.ReplaceArrValues}
	case pAppend:
		return []ucfg.Option{ucfg.AppendValues}
	case pPrepend:
		return []ucfg.Option{ucfg.PrependValues}
	}
	return nil
}

var keys = []string{"a", "b", "c"}

func gen(r *rand.Rand, depth int) interface{} {
	n := r.Intn(10)
	if depth <= 0 && n >= 5 {
		n = r.Intn(5)
	}
	switch n {
	case 0:
		return nil
	case 1:
		return uint64(r.Intn(9) + 1)
	case 2:
		return fmt.Sprintf("s%d", r.Intn(9))
	case 3:
		return r.Intn(2) == 0
	case 4:
		if r.Intn(2) == 0 {
			return map[string]interface{}{}
		}
		return []interface{}{}
	case 5, 6, 7:
		return genMap(r, depth-1)
	default:
		l := r.Intn(4)
		out := make([]interface{}, l)
		for i := range out {
			out[i] = gen(r, depth-1)
		}
		return out
	}
}

func genMap(r *rand.Rand, depth int) map[string]interface{} {
	m := map[string]interface{}{}
	for _, k := range keys {
		if r.Intn(3) != 0 {
			m[k] = gen(r, depth)
		}
	}
	return m
}

func isMap(v interface{}) bool  { _, ok := v.(map[string]interface{}); return ok }
func isList(v interface{}) bool { _, ok := v.([]interface{}); return ok }
func isCont(v interface{}) bool { return isMap(v) || isList(v) }

func cp(v interface{}) interface{} {
	switch t := v.(type) {
	case map[string]interface{}:
		m := map[string]interface{}{}
		for k, e := range t {
			m[k] = cp(e)
		}
		return m
	case []interface{}:
		l := make([]interface{}, len(t))
		for i, e := range t {
			l[i] = cp(e)
		}
		return l
	}
	return v
}

type mixed struct{} // marker: model gives up (dict meets list)

// model merge following the property text. ok=false if the shapes are outside
// of what the statement defines (dict meets list at the same address).
func merge(a, b interface{}, p policy, present bool) (res interface{}, ok bool) {
	if !present {
		return cp(b), true
	}
	if b == nil {
		if isCont(a) {
			return a, true
		}
		return nil, true
	}
	if a == nil && isList(b) && len(b.([]interface{})) == 0 && os.Getenv("STRICT") == "" {
		// finding F1 (nil + empty list gives nil); masked unless STRICT is set
		return nil, true
	}
	if !isCont(a) || !isCont(b) {
		return cp(b), true
	}
	if isMap(a) != isMap(b) {
		// empty containers merge with anything
		if isMap(b) && len(b.(map[string]interface{})) == 0 {
			return a, true
		}
		if isList(b) && len(b.([]interface{})) == 0 {
			return a, true
		}
		if isMap(a) && len(a.(map[string]interface{})) == 0 {
			return cp(b), true
		}
		if isList(a) && len(a.([]interface{})) == 0 {
			return cp(b), true
		}
		return nil, false
	}
	if isMap(a) {
		am, bm := a.(map[string]interface{}), b.(map[string]interface{})
		if len(bm) == 0 {
			return a, true
		}
		if p == pReplace {
			return cp(bm), true
		}
		out := map[string]interface{}{}
		for k, v := range am {
			out[k] = v
		}
		for k, v := range bm {
			old, present := am[k]
			m, ok := merge(old, v, p, present)
			if !ok {
				return nil, false
			}
			out[k] = m
		}
		return out, true
	}
	al, bl := a.([]interface{}), b.([]interface{})
	if len(bl) == 0 {
		return a, true
	}
	switch p {
	case pReplace, pReplaceArr:
		return cp(bl), true
	case pAppend:
		return append(append([]interface{}{}, al...), cp(bl).([]interface{})...), true
	case pPrepend:
		return append(append([]interface{}{}, cp(bl).([]interface{})...), al...), true
	}
	l := len(al)
	if len(bl) > l {
		l = len(bl)
	}
	out := make([]interface{}, l)
	for i := range out {
		switch {
		case i < len(al) && i < len(bl):
			m, ok := merge(al[i], bl[i], p, true)
			if !ok {
				return nil, false
			}
			out[i] = m
		case i < len(al):
			out[i] = al[i]
		default:
			out[i] = cp(bl[i])
		}
	}
	return out, true
}

// canon: empty map == nil (the library reifies an empty object as nil)
func canon(v interface{}) interface{} {
	switch t := v.(type) {
	case map[string]interface{}:
		if len(t) == 0 {
			return nil
		}
		m := map[string]interface{}{}
		for k, e := range t {
			m[k] = canon(e)
		}
		return m
	case []interface{}:
		l := make([]interface{}, len(t))
		for i, e := range t {
			l[i] = canon(e)
		}
		return l
	}
	return v
}

// Unpack into a map drops top-level keys that hold nil (or an empty object)
func dropNilTop(v interface{}) interface{} {
	m, ok := v.(map[string]interface{})
	if !ok {
		return map[string]interface{}{}
	}
	for k, e := range m {
		if e == nil {
			delete(m, k)
		}
	}
	return m
}

func show(v interface{}) string {
	switch t := v.(type) {
	case map[string]interface{}:
		ks := make([]string, 0, len(t))
		for k := range t {
			ks = append(ks, k)
		}
		sort.Strings(ks)
		s := "{"
		for i, k := range ks {
			if i > 0 {
				s += ", "
			}
			s += k + ": " + show(t[k])
		}
		return s + "}"
	case []interface{}:
		s := "["
		for i, e := range t {
			if i > 0 {
				s += ", "
			}
			s += show(e)
		}
		return s + "]"
	case nil:
		return "nil"
	case string:
		return fmt.Sprintf("%q", t)
	}
	return fmt.Sprintf("%v", v)
}

func unpack(c *ucfg.Config) (m map[string]interface{}, err error) {
	defer func() {
		if r := recover(); r != nil {
			err = fmt.Errorf("PANIC: %v", r)
		}
	}()
	m = map[string]interface{}{}
	err = c.Unpack(&m)
	return
}

func doMerge(c *ucfg.Config, src interface{}, opts []ucfg.Option) (err error) {
	defer func() {
		if r := recover(); r != nil {
			err = fmt.Errorf("PANIC: %v", r)
		}
	}()
	return c.Merge(src, opts...)
}

func main() {
	seed := int64(1)
	if len(os.Args) > 1 {
		fmt.Sscan(os.Args[1], &seed)
	}
	r := rand.New(rand.NewSource(seed))
	reported := map[string]bool{}
	nfail := 0
	for iter := 0; iter < 200000 && nfail < 25; iter++ {
		A := map[string]interface{}{"root": genMap(r, 3)}
		B := map[string]interface{}{"root": genMap(r, 3)}
		C := map[string]interface{}{"root": genMap(r, 2)}
		p := policy(r.Intn(5))
		asCfg := r.Intn(2) == 0
		chain := r.Intn(3) == 0

		srcs := []map[string]interface{}{B}
		if chain {
			srcs = append(srcs, C)
		}

		c, err := ucfg.NewFrom(cp(A))
		if err != nil {
			fmt.Println("NewFrom error", err, show(A))
			continue
		}
		var want interface{} = cp(A)
		okModel := true
		var merr error
		for _, s := range srcs {
			var src interface{} = cp(s)
			var srcCfg *ucfg.Config
			if asCfg {
				srcCfg, err = ucfg.NewFrom(cp(s))
				if err != nil {
					panic(err)
				}
				src = srcCfg
			}
			if e := doMerge(c, src, polOpts(p)); e != nil {
				merr = e
				break
			}
			if asCfg {
				// the source must be unchanged
				got, _ := unpack(srcCfg)
				if !reflect.DeepEqual(dropNilTop(canon(got)), dropNilTop(canon(cp(s)))) {
					fmt.Printf("SOURCE CHANGED policy=%s src=%s now=%s\n", polNames[p], show(s), show(got))
					nfail++
				}
			}
			var ok bool
			want, ok = merge(want, s, p, true)
			if !ok {
				okModel = false
				break
			}
		}
		if merr != nil {
			fmt.Printf("MERGE ERROR policy=%s A=%s B=%s: %v\n", polNames[p], show(A), show(B), merr)
			nfail++
			continue
		}
		if !okModel {
			continue
		}
		got, err := unpack(c)
		if err != nil {
			fmt.Printf("UNPACK ERROR policy=%s A=%s B=%s: %v\n", polNames[p], show(A), show(B), err)
			nfail++
			continue
		}
		if !reflect.DeepEqual(dropNilTop(canon(got)), dropNilTop(canon(want))) {
			key := fmt.Sprintf("%s|%s|%s", polNames[p], show(A), show(B))
			if !reported[key] && len(show(A))+len(show(B)) < 400 {
				fmt.Println("chain:", chain, "C=", show(C))
				reported[key] = true
				fmt.Printf("DIFF policy=%s cfgsrc=%v\n  A=%s\n  B=%s\n  got =%s\n  want=%s\n", polNames[p], asCfg, show(A), show(B), show(got), show(want))
				nfail++
			}
		}

		// self merge under default / replace changes nothing
		if p == pDefault || p == pReplace || p == pReplaceArr {
			before, _ := unpack(c)
			if e := doMerge(c, c, polOpts(p)); e != nil {
				fmt.Printf("SELF MERGE ERROR %v\n", e)
				nfail++
			}
			after, _ := unpack(c)
			if !reflect.DeepEqual(before, after) {
				fmt.Printf("SELF MERGE CHANGED policy=%s before=%s after=%s\n", polNames[p], show(before), show(after))
				nfail++
			}
		}
		// merging an empty config is the identity
		before, _ := unpack(c)
		doMerge(c, ucfg.New(), polOpts(p))
		doMerge(c, map[string]interface{}{}, polOpts(p))
		after, _ := unpack(c)
		if !reflect.DeepEqual(before, after) {
			fmt.Printf("EMPTY MERGE CHANGED policy=%s before=%s after=%s\n", polNames[p], show(before), show(after))
			nfail++
		}
		e := ucfg.New()
		doMerge(e, c, polOpts(p))
		after2, _ := unpack(e)
		if !reflect.DeepEqual(before, after2) {
			fmt.Printf("MERGE INTO EMPTY DIFFERS policy=%s c=%s got=%s\n", polNames[p], show(before), show(after2))
			nfail++
		}
	}
	fmt.Println("done, failures:", nfail)
}
