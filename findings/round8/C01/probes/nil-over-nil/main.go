package main

import (
	"fmt"

	ucfg "github.com/elastic/go-ucfg"
)

type M = map[string]interface{}
type L = []interface{}

func dump(c *ucfg.Config, opts ...ucfg.Option) string {
	m := M{}
	if err := c.Unpack(&m, opts...); err != nil {
		return "ERR " + err.Error()
	}
	return fmt.Sprintf("%v", m)
}

func main() {
	var s struct{ A string }
	var p struct{ A *int }

	a := ucfg.MustNewFrom(M{"a": nil, "b": 1})
	fmt.Println("before merge: Unpack string:", a.Unpack(&s), " *int:", a.Unpack(&p))
	a.Merge(M{"a": nil})
	fmt.Println("nil over nil: Unpack string:", a.Unpack(&s), " *int:", a.Unpack(&p))
	_, err := a.String("a", -1)
	fmt.Println("              String(a):", err)

	c := ucfg.MustNewFrom(M{"a": nil, "b": 1})
	c.Merge(c)
	fmt.Println("self merge  : Unpack string:", c.Unpack(&s), " (merging a config into itself must change nothing)")
}
