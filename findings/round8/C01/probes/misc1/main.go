package main

import (
	"fmt"

	ucfg "github.com/elastic/go-ucfg"
)

func try(name string, f func()) {
	defer func() {
		if r := recover(); r != nil {
			fmt.Printf("%s: PANIC %v\n", name, r)
		}
	}()
	f()
}

func dump(c *ucfg.Config, opts ...ucfg.Option) string {
	m := map[string]interface{}{}
	if err := c.Unpack(&m, opts...); err != nil {
		return "ERR " + err.Error()
	}
	return fmt.Sprintf("%v", m)
}

func main() {
	try("ref-old", func() {
		a := ucfg.MustNewFrom(map[string]interface{}{
			"base": map[string]interface{}{"x": 1},
			"a":    "${base}",
		}, ucfg.VarExp)
		fmt.Println("A before:", dump(a, ucfg.VarExp))
		err := a.Merge(map[string]interface{}{"a": map[string]interface{}{"y": 2}}, ucfg.VarExp)
		fmt.Println("merge err:", err)
		fmt.Println("A after :", dump(a, ucfg.VarExp))
	})
	try("ref-old-noVarExp", func() {
		a := ucfg.MustNewFrom(map[string]interface{}{
			"base": map[string]interface{}{"x": 1},
			"a":    "${base}",
		}, ucfg.VarExp)
		err := a.Merge(map[string]interface{}{"a": map[string]interface{}{"y": 2}})
		fmt.Println("merge err:", err)
		fmt.Println("A after :", dump(a, ucfg.VarExp))
	})
	try("ref-old-array", func() {
		a := ucfg.MustNewFrom(map[string]interface{}{
			"base": []interface{}{1, 2},
			"a":    "${base}",
		}, ucfg.VarExp)
		err := a.Merge(map[string]interface{}{"a": []interface{}{3}}, ucfg.VarExp, ucfg.AppendValues)
		fmt.Println("merge err:", err)
		fmt.Println("A after :", dump(a, ucfg.VarExp))
	})
	try("zero-config-field", func() {
		type S struct {
			Sub ucfg.Config
			X   int
		}
		a := ucfg.New()
		err := a.Merge(S{X: 1})
		fmt.Println("merge err:", err, dump(a))
	})
	try("zero-config-src", func() {
		a := ucfg.New()
		err := a.Merge(ucfg.Config{})
		fmt.Println("merge err:", err, dump(a))
	})
	try("nil-nil", func() {
		a := ucfg.MustNewFrom(map[string]interface{}{"a": nil})
		a.Merge(map[string]interface{}{"a": nil})
		var s struct {
			A *int
			B string
		}
		err := a.Unpack(&s)
		fmt.Println("unpack *int:", err, s.A)
		var s2 struct{ A string }
		err = a.Unpack(&s2)
		fmt.Printf("unpack string: %v %q\n", err, s2.A)
		b := ucfg.MustNewFrom(map[string]interface{}{"a": nil})
		err = b.Unpack(&s2)
		fmt.Printf("unmerged unpack string: %v %q\n", err, s2.A)
		var s3 struct{ A int }
		err = a.Unpack(&s3)
		fmt.Printf("unpack int: %v %v\n", err, s3.A)
		err = b.Unpack(&s3)
		fmt.Printf("unmerged unpack int: %v %v\n", err, s3.A)
		ok, err := a.Has("a", -1)
		ok2, _ := b.Has("a", -1)
		fmt.Println("has", ok, ok2, err)
		st, err := a.String("a", -1)
		st2, err2 := b.String("a", -1)
		fmt.Println("String:", st, err, "|", st2, err2)
	})
	try("typed-nil-config", func() {
		a := ucfg.MustNewFrom(map[string]interface{}{"a": 1})
		var n *ucfg.Config
		err := a.Merge(n)
		fmt.Println("merge nil *Config:", err, dump(a))
		var m map[string]interface{}
		err = a.Merge(m)
		fmt.Println("merge nil map:", err, dump(a))
		var pm *map[string]interface{}
		err = a.Merge(pm)
		fmt.Println("merge nil *map:", err, dump(a))
		var sl []interface{}
		err = a.Merge(sl)
		fmt.Println("merge nil slice:", err, dump(a))
	})
}
