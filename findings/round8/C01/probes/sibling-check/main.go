// Shows the sibling behaviour the seeded change refers to: Unpack treats a
// primitive as a list with one entry when appending to a pre-filled slice.
package main

import (
	"fmt"

	ucfg "github.com/elastic/go-ucfg"
)

func main() {
	t := struct {
		Paths []string `config:"paths,append"`
	}{Paths: []string{"a"}}
	c := ucfg.MustNewFrom(map[string]interface{}{"paths": "b"})
	fmt.Println(c.Unpack(&t), t.Paths)
	n, err := c.CountField("paths")
	fmt.Println(n, err)
	s, err := c.String("paths", 0)
	fmt.Println(s, err)
}
