package main

import (
	"fmt"

	ucfg "github.com/elastic/go-ucfg"
)

type M = map[string]interface{}
type L = []interface{}

func dump(c *ucfg.Config, opts ...ucfg.Option) string {
	m := map[string]interface{}{}
	if err := c.Unpack(&m, opts...); err != nil {
		return "ERR " + err.Error()
	}
	return fmt.Sprintf("%v", m)
}

func main() {
	B := M{"a": M{"b": M{"y": 2, "l": L{1, 2}}}, "a.b": M{"x": 1, "l": L{3}}}
	for _, o := range [][]ucfg.Option{nil, {ucfg.ReplaceValues}, {ucfg.ReplaceArrValues}, {ucfg.AppendValues}, {ucfg.PrependValues}} {
		c := ucfg.New()
		err := c.Merge(B, append(o, ucfg.PathSep("."))...)
		fmt.Println(err, dump(c))
	}
	type In struct {
		A M `config:"a"`
		B M `config:"a.b"`
	}
	for _, o := range [][]ucfg.Option{nil, {ucfg.ReplaceValues}, {ucfg.AppendValues}} {
		c := ucfg.New()
		err := c.Merge(In{A: M{"b": M{"y": 2, "l": L{1, 2}}}, B: M{"x": 1, "l": L{3}}}, append(o, ucfg.PathSep("."))...)
		fmt.Println(err, dump(c))
	}
}
