package main

import (
	"fmt"

	ucfg "github.com/elastic/go-ucfg"
)

type M = map[string]interface{}
type L = []interface{}

func dump(c *ucfg.Config, opts ...ucfg.Option) string {
	m := M{}
	if err := c.Unpack(&m, opts...); err != nil {
		return "ERR " + err.Error()
	}
	return fmt.Sprintf("%v", m)
}

func main() {
	a := ucfg.MustNewFrom(M{
		"base": M{"x": 1},
		"a":    "${base}",
	}, ucfg.VarExp)
	fmt.Println("A before:", dump(a))
	err := a.Merge(M{"a": M{"y": 2}})
	fmt.Println("merge err:", err)
	fmt.Println("A after :", dump(a), " (B has no key 'base': base must still be {x:1})")

	l := ucfg.MustNewFrom(M{"base": L{1, 2}, "a": "${base}"}, ucfg.VarExp)
	l.Merge(M{"a": L{3}}, ucfg.AppendValues)
	fmt.Println("list    :", dump(l), " (base must still be [1 2])")
}
