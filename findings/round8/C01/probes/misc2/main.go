package main

import (
	"fmt"

	ucfg "github.com/elastic/go-ucfg"
)

func try(name string, f func()) {
	defer func() {
		if r := recover(); r != nil {
			fmt.Printf("%s: PANIC %v\n", name, r)
		}
	}()
	f()
}

func dump(c *ucfg.Config, opts ...ucfg.Option) string {
	m := map[string]interface{}{}
	if err := c.Unpack(&m, opts...); err != nil {
		return "ERR " + err.Error()
	}
	return fmt.Sprintf("%v", m)
}

type M = map[string]interface{}
type L = []interface{}

func main() {
	try("self-merge-nil", func() {
		a := ucfg.MustNewFrom(M{"a": nil, "b": 1})
		var s struct{ A string }
		fmt.Println("before:", a.Unpack(&s))
		a.Merge(a)
		fmt.Println("after self merge:", a.Unpack(&s))
	})
	try("field-order-pathsep", func() {
		A := M{"a": M{"b": L{1, 2}}}
		B := M{"a": M{"b": L{3}}}
		c1 := ucfg.MustNewFrom(A)
		c1.Merge(B, ucfg.PathSep("."), ucfg.FieldAppendValues("a.b"))
		c2 := ucfg.MustNewFrom(A)
		c2.Merge(B, ucfg.FieldAppendValues("a.b"), ucfg.PathSep("."))
		fmt.Println("PathSep first:", dump(c1), " PathSep last:", dump(c2))
	})
	try("field-append-nested", func() {
		A := M{"a": M{"b": L{1, 2}, "c": M{"d": L{1}}}, "z": L{1}}
		B := M{"a": M{"b": L{3}, "c": M{"d": L{2}}}, "z": L{2}}
		c1 := ucfg.MustNewFrom(A)
		c1.Merge(B, ucfg.PathSep("."), ucfg.FieldAppendValues("a"))
		fmt.Println("append a:", dump(c1))
		c2 := ucfg.MustNewFrom(A)
		c2.Merge(B, ucfg.PathSep("."), ucfg.AppendValues, ucfg.FieldReplaceValues("a.c"))
		fmt.Println("append global, replace a.c:", dump(c2))
		c3 := ucfg.MustNewFrom(A)
		c3.Merge(B, ucfg.PathSep("."), ucfg.AppendValues, ucfg.FieldMergeValues("a.c.d"))
		fmt.Println("append global, merge a.c.d:", dump(c3))
	})
	try("array-in-array-field", func() {
		A := M{"a": L{L{1}, L{2}}}
		B := M{"a": L{L{3}, L{4}}}
		c1 := ucfg.MustNewFrom(A)
		c1.Merge(B, ucfg.PathSep("."), ucfg.FieldAppendValues("a.0"))
		fmt.Println("append a.0:", dump(c1))
		c2 := ucfg.MustNewFrom(A)
		c2.Merge(B, ucfg.PathSep("."), ucfg.FieldAppendValues("a.1"))
		fmt.Println("append a.1:", dump(c2))
	})
	try("struct-src", func() {
		type In struct {
			P *int
			M map[string]interface{}
			S []int
			I interface{}
		}
		A := M{"p": M{"x": 1}, "m": M{"x": 1}, "s": L{1, 2}, "i": L{1}}
		c := ucfg.MustNewFrom(A)
		err := c.Merge(In{})
		fmt.Println("struct zero:", err, dump(c))
		c = ucfg.MustNewFrom(A)
		err = c.Merge(&In{S: []int{}, M: M{}}, ucfg.ReplaceValues)
		fmt.Println("struct zero replace:", err, dump(c))
	})
	try("mixed", func() {
		A := M{"a": M{"x": 1}}
		B := M{"a": L{5}}
		for _, o := range [][]ucfg.Option{nil, {ucfg.ReplaceValues}, {ucfg.ReplaceArrValues}, {ucfg.AppendValues}, {ucfg.PrependValues}} {
			c := ucfg.MustNewFrom(A)
			err := c.Merge(B, o...)
			fmt.Println("list over dict:", err, dump(c))
			c = ucfg.MustNewFrom(B)
			err = c.Merge(A, o...)
			fmt.Println("dict over list:", err, dump(c))
		}
	})
	try("top-level list", func() {
		c := ucfg.MustNewFrom(L{1, 2})
		err := c.Merge(L{3}, ucfg.AppendValues)
		var out []interface{}
		err2 := c.Unpack(&out)
		fmt.Println(err, err2, out)
		err = c.Merge(M{"0": 9, "k": 1})
		m := M{}
		err2 = c.Unpack(&m)
		fmt.Println(err, err2, m)
	})
	try("child merge", func() {
		c := ucfg.MustNewFrom(M{"a": M{"x": 1}, "b": 2})
		ch, _ := c.Child("a", -1)
		err := ch.Merge(c)
		fmt.Println(err, dump(c))
		err = c.Merge(ch, ucfg.ReplaceValues)
		fmt.Println(err, dump(c))
	})
}
