package main

import (
	"fmt"

	ucfg "github.com/elastic/go-ucfg"
)

type M = map[string]interface{}
type L = []interface{}

func dump(c *ucfg.Config, opts ...ucfg.Option) string {
	m := M{}
	if err := c.Unpack(&m, opts...); err != nil {
		return "ERR " + err.Error()
	}
	return fmt.Sprintf("%v", m)
}

func main() {
	A := M{"a": M{"b": L{1, 2}}}
	B := M{"a": M{"b": L{3}}}
	c1 := ucfg.MustNewFrom(A)
	c1.Merge(B, ucfg.PathSep("."), ucfg.FieldAppendValues("a.b"))
	c2 := ucfg.MustNewFrom(A)
	c2.Merge(B, ucfg.FieldAppendValues("a.b"), ucfg.PathSep("."))
	c3 := ucfg.MustNewFrom(A)
	c3.Merge(B, ucfg.FieldAppendValues("a.b"))
	fmt.Println("PathSep first:", dump(c1))
	fmt.Println("PathSep last :", dump(c2))
	fmt.Println("no PathSep   :", dump(c3), " (doc: nested names use dot notation)")
}
