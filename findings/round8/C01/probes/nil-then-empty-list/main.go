package main

import (
	"fmt"

	ucfg "github.com/elastic/go-ucfg"
)

type M = map[string]interface{}
type L = []interface{}

func dump(c *ucfg.Config, opts ...ucfg.Option) string {
	m := M{}
	if err := c.Unpack(&m, opts...); err != nil {
		return "ERR " + err.Error()
	}
	return fmt.Sprintf("%v", m)
}

func main() {
	for _, o := range [][]ucfg.Option{nil, {ucfg.ReplaceArrValues}, {ucfg.AppendValues}, {ucfg.PrependValues}} {
		a := ucfg.MustNewFrom(M{"root": M{"a": nil, "b": 1}})
		a.Merge(M{"root": M{"a": L{}}}, o...)
		fmt.Println("nil then []   :", dump(a), " (want root.a = [])")
		e := ucfg.MustNewFrom(M{"root": M{"b": 1}})
		e.Merge(M{"root": M{"a": L{}}}, o...)
		fmt.Println("absent then []:", dump(e))
		p := ucfg.MustNewFrom(M{"root": M{"a": 5, "b": 1}})
		p.Merge(M{"root": M{"a": L{}}}, o...)
		fmt.Println("5 then []     :", dump(p))
	}
}
