// A sub-config attached a second time with SetChild is shared, not moved or
// copied: the first holder still contains it, but Path/Parent/FlattenedKeys
// describe only the last attachment.
package main

import (
	"fmt"

	ucfg "github.com/elastic/go-ucfg"
	"github.com/elastic/go-ucfg/diff"
)

type M = map[string]interface{}

func main() {
	c := ucfg.MustNewFrom(M{"a": M{"s": M{"x": 1}}, "b": M{}})
	s, _ := c.Child("a.s", -1, ucfg.PathSep("."))
	fmt.Println(c.SetChild("b.t", -1, s, ucfg.PathSep(".")))

	var m M
	c.Unpack(&m)
	fmt.Println("structure:     ", m)
	fmt.Println("FlattenedKeys: ", c.FlattenedKeys(), " want [a.s.x b.t.x]")
	a, _ := c.Child("a", -1)
	as, _ := a.Child("s", -1)
	fmt.Printf("Child(a).Child(s): Path=%q (want a.s) Parent()==a: %v\n", as.Path("."), as.Parent() == a)

	// the same across two configs: the donor is left with wrong metadata
	donor := ucfg.MustNewFrom(M{"s": M{"x": 1}})
	ds, _ := donor.Child("s", -1)
	other := ucfg.New()
	other.SetChild("t", -1, ds)
	fmt.Println("donor keys:", donor.FlattenedKeys(), " want [s.x]")
	equal := ucfg.MustNewFrom(M{"s": M{"x": 1}})
	fmt.Println("donor compared with an equal config:", diff.CompareConfigs(donor, equal))
}
