package main

import (
	"fmt"
	"os"

	ucfg "github.com/elastic/go-ucfg"
	"github.com/elastic/go-ucfg/diff"
)

type M = map[string]interface{}
type A = []interface{}

func main() {
	if len(os.Args) > 1 && os.Args[1] == "cycle" {
		c := ucfg.MustNewFrom(M{"a": M{"b": 1}})
		a, _ := c.Child("a", -1)
		fmt.Println("SetChild of the root below its own child:", a.SetChild("up", -1, c))
		fmt.Println(c.Path("."))
		return
	}

	// padded merge
	c := ucfg.MustNewFrom(M{"l": A{"a", "b", "c"}})
	fmt.Println(c.Merge(M{"l.2": "z"}, ucfg.PathSep(".")))
	var m M
	c.Unpack(&m)
	fmt.Println("after padded merge:", m, c.FlattenedKeys())

	// separator option
	c = ucfg.MustNewFrom(M{"a": M{"b": A{1, M{"c": 2}}}})
	fmt.Println(c.FlattenedKeys(ucfg.PathSep("/")))
	fmt.Println(diff.CompareConfigs(c, c, ucfg.PathSep("/")))

	// SetChild of a child taken from another config (steals it)
	o := ucfg.MustNewFrom(M{"s": M{"x": 1}})
	s, _ := o.Child("s", -1)
	n := ucfg.New()
	n.SetChild("t", -1, s)
	s2, _ := o.Child("s", -1)
	fmt.Printf("donor: keys=%v child path=%q parent is donor: %v\n", o.FlattenedKeys(), s2.Path("."), s2.Parent() == o)
	fmt.Println("diff donor vs itself:", diff.CompareConfigs(o, o))
	o2 := ucfg.MustNewFrom(M{"s": M{"x": 1}})
	fmt.Println("diff donor vs equal:", diff.CompareConfigs(o, o2))

	// remove then handle on removed
	c = ucfg.MustNewFrom(M{"l": A{M{"a": 1}, M{"b": 2}, M{"c": 3}}})
	l, _ := c.Child("l", -1)
	last, _ := l.Child("", 2)
	c.Remove("l", 0)
	fmt.Printf("moved element handle path=%q\n", last.Path("."))
	c.Merge(M{"l": A{M{"p": 0}}}, ucfg.PrependValues)
	l2, _ := c.Child("l", -1)
	fmt.Println("same list node after prepend:", l == l2)
	now, _ := l2.Child("", 2)
	fmt.Printf("after prepend: handle path=%q (stale=%v) current path=%q\n", last.Path("."), last != now, now.Path("."))
}
