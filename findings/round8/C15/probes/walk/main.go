package main

import (
	"fmt"
	"reflect"
	"sort"
	"strings"

	ucfg "github.com/elastic/go-ucfg"
	"github.com/elastic/go-ucfg/diff"
)

var failures int

func fail(label, format string, args ...interface{}) {
	failures++
	fmt.Printf("FAIL [%s] %s\n", label, fmt.Sprintf(format, args...))
}

func join(p, f string) string {
	if p == "" {
		return f
	}
	return p + "." + f
}

// expected keys from the reified structure
func keysOf(v interface{}, path string, out *[]string) {
	switch t := v.(type) {
	case nil:
	case map[string]interface{}:
		for k, e := range t {
			keysOf(e, join(path, k), out)
		}
	case []interface{}:
		for i, e := range t {
			keysOf(e, join(path, fmt.Sprint(i)), out)
		}
	default:
		*out = append(*out, path)
	}
}

func reifyCfg(c *ucfg.Config) (interface{}, error) {
	if c.IsArray() && !c.IsDict() {
		var a []interface{}
		err := c.Unpack(&a)
		return a, err
	}
	m := map[string]interface{}{}
	err := c.Unpack(&m)
	return m, err
}

func walk(label string, c *ucfg.Config, path string, v interface{}) {
	if got := c.Path("."); got != path {
		fail(label, "Path: got %q want %q", got, path)
	}
	switch t := v.(type) {
	case map[string]interface{}:
		for k, e := range t {
			switch e.(type) {
			case map[string]interface{}, []interface{}:
				ch, err := c.Child(k, -1, ucfg.PathSep(""))
				if err != nil {
					fail(label, "Child(%q) under %q: %v", k, path, err)
					continue
				}
				if ch.Parent() != c {
					fail(label, "Parent of %q is %p (path %q) want %p", join(path, k), ch.Parent(), pathOf(ch.Parent()), c)
				}
				walk(label, ch, join(path, k), e)
			}
			if got := c.PathOf(k, "."); got != join(path, k) {
				fail(label, "PathOf: got %q want %q", got, join(path, k))
			}
		}
	case []interface{}:
		for i, e := range t {
			switch e.(type) {
			case map[string]interface{}, []interface{}:
				ch, err := c.Child("", i)
				if err != nil {
					fail(label, "Child(%d) under %q: %v", i, path, err)
					continue
				}
				if ch.Parent() != c {
					fail(label, "Parent of %q is %p (path %q) want %p", join(path, fmt.Sprint(i)), ch.Parent(), pathOf(ch.Parent()), c)
				}
				walk(label, ch, join(path, fmt.Sprint(i)), e)
			}
		}
	}
}

func pathOf(c *ucfg.Config) string {
	if c == nil {
		return "<nil>"
	}
	return c.Path(".")
}

func check(label string, c *ucfg.Config) {
	v, err := reifyCfg(c)
	if err != nil {
		fail(label, "unpack: %v", err)
		return
	}
	var want []string
	keysOf(v, "", &want)
	sort.Strings(want)
	got := c.FlattenedKeys()
	if !reflect.DeepEqual(got, want) && !(len(got) == 0 && len(want) == 0) {
		fail(label, "FlattenedKeys:\n   got  %v\n   want %v\n   tree %v", got, want, v)
	}
	walk(label, c, "", v)

	d := diff.CompareConfigs(c, c)
	if d.HasChanged() {
		fail(label, "self compare changed: %v", d)
	}
	keep := append([]string(nil), d[diff.Keep]...)
	sort.Strings(keep)
	if !reflect.DeepEqual(keep, want) && !(len(keep) == 0 && len(want) == 0) {
		fail(label, "self compare keep: %v want %v", keep, want)
	}
	fmt.Printf("ok? [%s] keys=%s\n", label, strings.Join(got, " "))
}

func must(err error) {
	if err != nil {
		panic(err)
	}
}

func main() {
	type M = map[string]interface{}
	type A = []interface{}

	// 1. plain
	c := ucfg.MustNewFrom(M{"a": M{"b": 1, "c": A{1, M{"x": 2}, A{3, 4}}}, "n": nil, "e": M{}, "ea": A{}})
	check("plain", c)

	// 2. remove from the middle of lists
	c = ucfg.MustNewFrom(M{"l": A{M{"a": 1}, M{"b": 2}, M{"c": A{M{"d": 1}}}, 4}})
	_, err := c.Remove("l", 1)
	must(err)
	check("remove-middle", c)
	_, err = c.Remove("l.0", -1, ucfg.PathSep("."))
	must(err)
	check("remove-first-by-path", c)

	// 3. prepend / append
	c = ucfg.MustNewFrom(M{"l": A{M{"a": 1}, A{M{"q": 1}}}})
	must(c.Merge(M{"l": A{M{"z": 9}, 5}}, ucfg.PrependValues))
	check("prepend", c)
	must(c.Merge(M{"l": A{M{"y": 9}, nil, A{}}}, ucfg.AppendValues))
	check("append", c)
	must(c.Merge(M{"l": A{M{"r": 9}}}, ucfg.ReplaceValues))
	check("replace", c)

	// 4. re-attach child
	c = ucfg.MustNewFrom(M{"a": M{"s": M{"x": 1, "l": A{M{"k": 1}}}}, "b": M{}})
	s, err := c.Child("a.s", -1, ucfg.PathSep("."))
	must(err)
	must(c.SetChild("b.t", -1, s, ucfg.PathSep(".")))
	check("reattach-both", c)
	_, err = c.Remove("a.s", -1, ucfg.PathSep("."))
	must(err)
	check("reattach-moved", c)

	// 5. re-attach into a list index
	c = ucfg.MustNewFrom(M{"l": A{M{"a": 1}, M{"b": 2}}})
	s, err = c.Child("l", 0)
	must(err)
	must(c.SetChild("l", 3, s))
	check("reattach-list", c)
	_, err = c.Remove("l", 0)
	must(err)
	check("reattach-list-removed0", c)

	// 6. top-level list
	c = ucfg.MustNewFrom(A{M{"a": 1}, A{1, 2}, 3})
	check("toplist", c)
	_, err = c.Remove("", 0)
	must(err)
	check("toplist-remove", c)
	must(c.Merge(A{M{"p": 1}}, ucfg.PrependValues))
	check("toplist-prepend", c)

	// 7. set with path creating intermediate
	c = ucfg.New()
	must(c.SetInt("a.b.2.c", -1, 5, ucfg.PathSep(".")))
	check("set-path", c)
	must(c.SetInt("a.b", 5, 5, ucfg.PathSep(".")))
	check("set-path-idx", c)
	must(c.SetString("a.b.0.z", -1, "q", ucfg.PathSep(".")))
	check("set-into-nil-pad", c)

	// 8. merge of struct with dotted tags
	type S struct {
		X int            `config:"p.q.x"`
		Y map[string]int `config:"p.q"`
		L []interface{}  `config:"p.l"`
	}
	c = ucfg.MustNewFrom(S{X: 1, Y: map[string]int{"y": 2}, L: A{M{"a": 1}}}, ucfg.PathSep("."))
	check("struct-dotted", c)

	// 9. merge Config into sub, child handles
	c = ucfg.MustNewFrom(M{"a": M{"b": M{"c": 1}}})
	must(c.Merge(M{"a": M{"b": M{"d": A{M{"e": 1}}}}}))
	check("merge-deep", c)
	other := ucfg.MustNewFrom(M{"a": M{"b": M{"d": A{M{"e2": 1}, M{"f": 2}}}}})
	must(c.Merge(other))
	check("merge-config", c)
	check("merge-config-source", other)

	// 10. map keys with dots, no PathSep
	c = ucfg.MustNewFrom(M{"a.b": M{"c.d": 1}})
	check("dotted-keys-nosep", c)

	// 11. merge into a child directly
	c = ucfg.MustNewFrom(M{"a": M{"l": A{M{"x": 1}, M{"y": 2}}}})
	ch, err := c.Child("a", -1)
	must(err)
	must(ch.Merge(M{"l": A{M{"z": 3}}}, ucfg.PrependValues))
	check("merge-into-child", c)
	l, err := ch.Child("l", -1)
	must(err)
	_, err = l.Remove("", 1)
	must(err)
	check("remove-in-child", c)
	must(l.SetString("", 5, "s"))
	check("set-in-child-list", c)

	// 12. SetChild of foreign root config, then mutate
	sub := ucfg.MustNewFrom(M{"k": A{M{"v": 1}}})
	c = ucfg.New()
	must(c.SetChild("x.y", -1, sub, ucfg.PathSep(".")))
	check("setchild-foreign", c)
	must(c.SetChild("", 0, sub))
	// mixed now; skip

	// 13. numeric-looking keys
	c = ucfg.MustNewFrom(M{"a": M{"0": 1, "1": M{"x": 1}}}, ucfg.PathSep("."))
	check("numeric-keys-pathsep", c)
	c = ucfg.MustNewFrom(M{"a": M{"0": 1, "1": M{"x": 1}}})
	check("numeric-keys-nosep", c)
	c = ucfg.MustNewFrom(M{"0": 1, "1": M{"x": 1}})
	check("numeric-keys-top", c)

	// 14. replace handling via field handling
	c = ucfg.MustNewFrom(M{"a": M{"l": A{M{"x": 1}}}})
	must(c.Merge(M{"a": M{"l": A{M{"y": 1}}}}, ucfg.FieldPrependValues("a.l"), ucfg.PathSep(".")))
	check("field-prepend", c)

	fmt.Println("failures:", failures)
}
