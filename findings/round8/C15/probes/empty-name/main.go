// A setting whose name is the empty string cuts the path: context.path returns
// "" as soon as a field name is empty, without looking at the parents.
package main

import (
	"fmt"

	ucfg "github.com/elastic/go-ucfg"
	"github.com/elastic/go-ucfg/diff"
	"github.com/elastic/go-ucfg/yaml"
)

type M = map[string]interface{}

func main() {
	c := ucfg.MustNewFrom(M{"a": M{"": M{"x": 1}}, "x": 2})
	var m M
	c.Unpack(&m)
	fmt.Println("structure:", m)
	fmt.Println("FlattenedKeys:", c.FlattenedKeys(), " (a..x is reported as x, twice the same key)")

	// trailing / doubled separators produce empty names as well
	c = ucfg.MustNewFrom(M{"a.": 1, "b..c": 2, "x": 3}, ucfg.PathSep("."))
	m = nil
	c.Unpack(&m)
	fmt.Println("structure:", m)
	fmt.Printf("FlattenedKeys: %q\n", c.FlattenedKeys())

	y, err := yaml.NewConfig([]byte("a:\n  \"\":\n    x: 1\nx: 2\n"))
	fmt.Println(err, y.FlattenedKeys())

	c1 := ucfg.MustNewFrom(M{"b": M{"": M{"c": 2}}, "x": 3})
	c2 := ucfg.MustNewFrom(M{"c": 2, "x": 3})
	d := diff.CompareConfigs(c1, c2)
	fmt.Println("different structures, HasChanged:", d.HasChanged(), d)
}
