// A dictionary that lost its last key (fields.del leaves an empty, non-nil map)
// and then receives list entries still answers IsDict() == true, and
// flattenedKeys ("if IsDict ... else if IsArray") never looks at its list part.
package main

import (
	"fmt"

	ucfg "github.com/elastic/go-ucfg"
	"github.com/elastic/go-ucfg/diff"
)

type M = map[string]interface{}
type A = []interface{}

func main() {
	c := ucfg.MustNewFrom(M{"a": M{"x": 1}})
	a, _ := c.Child("a", -1)
	fmt.Println(a.Remove("x", -1))
	fmt.Println(a.SetInt("", 0, 7))

	var m M
	fmt.Println(c.Unpack(&m), "structure:", m)
	fmt.Println("IsDict:", a.IsDict(), "IsArray:", a.IsArray(), "GetFields:", a.GetFields())
	fmt.Println("FlattenedKeys:", c.FlattenedKeys(), " want [a.0]")

	equal := ucfg.MustNewFrom(M{"a": A{7}})
	fmt.Println("compared with an equal config:", diff.CompareConfigs(c, equal))
}
