package main

import (
	"fmt"

	ucfg "github.com/elastic/go-ucfg"
	"github.com/elastic/go-ucfg/diff"
	"github.com/elastic/go-ucfg/yaml"
)

type M = map[string]interface{}
type A = []interface{}

func main() {
	// empty key names
	c := ucfg.MustNewFrom(M{"a": M{"": M{"x": 1}}, "x": 2})
	fmt.Println("empty-name keys:", c.FlattenedKeys())
	a, _ := c.Child("a", -1)
	e, err := a.Child("", -1)
	fmt.Println("child err", err)
	if e != nil {
		fmt.Printf("empty-name child path=%q parent==a:%v\n", e.Path("."), e.Parent() == a)
	}
	var m M
	fmt.Println(c.Unpack(&m), m)

	// trailing separator
	c = ucfg.MustNewFrom(M{"a.": 1, "b..c": 2, "x": 3}, ucfg.PathSep("."))
	fmt.Println("trailing-sep keys:", c.FlattenedKeys())
	m = nil
	fmt.Println(c.Unpack(&m), m)

	c2 := ucfg.MustNewFrom(M{"c": 2, "x": 3})
	c1 := ucfg.MustNewFrom(M{"b": M{"": M{"c": 2}}, "x": 3})
	fmt.Println("diff:", diff.CompareConfigs(c1, c2))

	// yaml with empty key
	yc, err := yaml.NewConfig([]byte("a:\n  \"\":\n    x: 1\nx: 2\n"))
	fmt.Println(err)
	if yc != nil {
		fmt.Println("yaml keys:", yc.FlattenedKeys())
	}

	// Child on a null value
	c = ucfg.MustNewFrom(M{"n": nil, "l": A{nil, 1}})
	n, err := c.Child("n", -1)
	fmt.Println("child of null:", n != nil, err)
	if n != nil {
		fmt.Printf("  path=%q parent==c:%v\n", n.Path("."), n.Parent() == c)
		n.SetInt("v", -1, 1)
		fmt.Println("  after write through handle keys:", c.FlattenedKeys())
		n2, _ := c.Child("n", -1)
		fmt.Println("  same handle again:", n == n2)
	}

	// By-value copy
	c = ucfg.MustNewFrom(M{"s": M{"t": M{"x": 1}}})
	var tgt struct {
		P *ucfg.Config `config:"s"`
	}
	fmt.Println(c.Unpack(&tgt))
	t, _ := tgt.P.Child("t", -1)
	fmt.Printf("by-pointer: child.Parent()==ptr:%v path=%q\n", t.Parent() == tgt.P, t.Path("."))

	// Merge into a config target pre-filled
	pre := ucfg.MustNewFrom(M{"l": A{M{"a": 1}}})
	var tgt2 struct {
		P *ucfg.Config `config:"s"`
	}
	tgt2.P = pre
	c = ucfg.MustNewFrom(M{"s": M{"l": A{M{"b": 1}, M{"c": 2}}}})
	fmt.Println(c.Unpack(&tgt2, ucfg.PrependValues))
	fmt.Println("prefilled keys:", tgt2.P.FlattenedKeys(), tgt2.P == pre)
	l, _ := pre.Child("l", -1)
	for i := 0; i < 3; i++ {
		ch, err := l.Child("", i)
		if err != nil {
			fmt.Println(err)
			continue
		}
		fmt.Printf("  %d path=%q parentok=%v\n", i, ch.Path("."), ch.Parent() == l)
	}
}
